HOOKS = {
    "guard": "verif",
    "enable": "go build -tags verif (the harness under /verif/harness is built with this tag against /repo's working tree on every run)",
    "baseline_off_cmd": "cd /repo && go test -vet=off -count=1 ./...",
    "source_commits": [],
    "add_only": True,
}
ENGINES = [{
    "name": "coq-proof+correspondence",
    "path": "/verif/coq (theories, templates), /verif/harness (Go), /verif/bin/check (driver)",
    "serves_properties": [],
    "kind_free_text": "Machine-checked proof in Coq 8.16.1 about a hand-written executable Gallina model M of the code and a specification S written from the property; M is tied to /repo on every run by (1) tables regenerated from the source and re-proved, (2) a correspondence check: generated cases are executed on the implementation, inputs and observed outcomes are written as Gallina literals and judged inside Coq by vm_compute against both M and S.",
}]
NOTES = "Exit codes of bin/check: 0 held, 1 VIOLATION printed, 2 the check itself is broken. All scratch under /verif/build; replays under /verif/replays."

CHECKS = {
    "C15": {
        "text": "Theorems (axiom-free): for every operator description with min<=max<=|constraints| and every input list of any length the gate model returns a count/type input error exactly when the statement says so, otherwise the inputs unchanged, in order, padded with absent; never a panic; the side condition is necessary; Concat's and PRelu's layers; lookups return instances whose state is independent of all other lookups. Tie: the operator table is regenerated from the code on every run and the well-formedness/freshness obligations are re-proved over it by computation; the whole finite gate space (55 operators x counts x 14 dtypes per position x nil at optional positions, ~12k calls) is enumerated on the implementation under recover() and judged in Coq against S and M.",
        "note": "Trusted: Coq kernel + vm_compute; the table translator (harness/table.go); the harness' classification of errors (errors.As *ops.InputError + message kind); the driver. Freshness of lookups is observed as pointer inequality (or zero-size type), not proved of the Go registry.",
        "technique": "Coq proof over gate/registry model + regenerated operator table re-proved by vm_compute + exhaustive gate enumeration judged in Coq",
    },
}
CHECKS["C14"] = {
    "text": "Theorems (axiom-free, any element type, any rank, any positive extents): the model of MultidirectionalBroadcast/UnidirectionalBroadcast (rank equalisation by prepending 1s, per-axis Repeat loop from the last axis) EQUALS the ONNX specification: Ok exactly when the shapes are broadcast-compatible (resp. broadcast to the first operand's shape), both results then have the broadcast shape and every element is the source element at the projected index (stretched axes pinned to 0, first operand returned as is for unidirectional); otherwise an error. Tie: both helpers are called on all ordered pairs of shapes of rank 0..3 (quick; 0..4 thorough) with extents 1..3 plus seeded random larger shapes, index-coded data, all 14 dtypes; results read element by element, sources re-read after the call; judged in Coq against S and M.",
    "note": "Trusted: Coq kernel + vm_compute; gorgonia Repeat/Reshape/Clone are modelled (G/Repeat.v, G/Reshape.v) and validated only through these cases; harness and driver. Non-modification of the sources is observed, not proved of the Go code.",
    "technique": "Coq proof (model = ONNX broadcast spec for all ranks) + bounded-exhaustive correspondence check judged in Coq",
}
CHECKS["C07"] = {
    "text": "Model of reshape.go/flatten.go/squeeze.go/unsqueeze.go/shape.go (as repaired by three fix: commits) and an ONNX specification written independently; theorem c07_model_refines_spec: for every input of any rank/dtype and every request the model's outcome is the one ONNX prescribes (same payload in the same order, ONNX shape; error for element-count mismatch, two -1, entries < -1, duplicate or out-of-range axes, squeezing an extent != 1), outside one known-finding class (Shape of a rank-0 tensor). Tie: bounded-exhaustive cases (all shapes rank 0..3(4) extents 1..3 x all axes lists x all targets) executed on the implementation and judged in Coq against S and M.",
    "note": "Trusted: Coq kernel + vm_compute; gorgonia Reshape on a clone modelled as element-count check + panic on negative extent; harness and driver.",
    "technique": "Coq proof (model refines ONNX shape-operator spec) + bounded-exhaustive correspondence check judged in Coq",
}
CHECKS["C08"] = {
    "text": "Models of transpose.go/concat.go/slice.go/gather.go/expand.go (as repaired by four fix: commits; Slice through a model of gorgonia's Dense.Slice, Expand through the broadcast model proved correct in C14) and ONNX index-formula specifications (Slice-13 clamping rules, Gather formula, two-way broadcast, concatenation, permutation). Tie: bounded-exhaustive cases (data shapes rank 1..3 extents 1..3; all permutations; all axes; all (start,end,step) over [-d-2,d+2] x {1,2,3,-1} + INT64 extremes; index tensors rank 0..2; all targets) executed on the implementation, judged in Coq against S and M; two known-finding classes (Slice drops extent-1 axes: pinned by the repository's own test; gorgonia's axis-0 stepped extent).",
    "note": "Trusted: Coq kernel + vm_compute; gorgonia Slice/Transpose/Concat/Repeat modelled (G/Slice.v matched 7287 probed calls in the design round); harness and driver. Gather's block-copy loop is represented by its index formula (validated by the exhaustive cases, not yet by a loop proof).",
    "technique": "Coq models + ONNX index-formula specs, bounded-exhaustive correspondence check judged in Coq; Expand reduced to the proved broadcast theorem",
}
CHECKS["C03"] = {
    "text": "Theorems (axiom-free): for operands of any rank with positive extents and equal element type and ANY scalar operation g, the model of ApplyBinaryOperation (multidirectional broadcast, dtype check, kernel) returns exactly the ONNX result -- broadcast shape, result dtype, g applied to the correspondingly broadcast elements -- or an error when the shapes are incompatible (C03_binop_is_onnx, resting on the C14 broadcast theorem); refused element types never yield a value; the integer kernels are two's-complement wrap-around and truncating division (lemmas); float kernels are Flocq's IEEE-754 binary32/64 operations by definition. Tie: 12 operators x every dtype the gate accepts (gate read from the operator table regenerated from /repo) x broadcast shape pairs x special-value pools, executed on the implementation and compared BIT FOR BIT in Coq against S and M. One known-finding class (float division by +-0 in gorgonia's kernels).",
    "note": "Trusted: Coq kernel + vm_compute; Flocq 4.1 as the definition of IEEE-754; gorgonia's elementwise kernels are modelled by Model/Scalar.v and validated by sampling only; harness and driver.",
    "technique": "Coq proof (binary-op model = ONNX broadcast formula) + bit-exact Flocq/wrap arithmetic correspondence check judged in Coq",
}
CHECKS["C01"] = {
    "text": "Theorems (axiom-free; any tensor type, attribute type, operator semantics, node list -- no topological-order or SSA hypothesis): a successful Run of the model of model.go returns exactly the declared outputs, in order, each the non-nil demand-driven value of its name (value = result j of the latest node listing the name at position j applied to the values of its input names, \"\" = absent); the environment after the node loop holds that value under every name; initial bindings are the ones the property describes (supplied declared input overrides its initializer); Run fails exactly when validation fails, a node fails (its error reported) or a declared output is unbound/nil; never panics unless an operator does; positional binding (values invariant under consistent renaming). Node isolation is by construction of the model (operator semantics is a function of the node's own type, attributes and inputs) + C15's registry theorem + the freshness obligation. Tie: seeded random DAGs over symbolic hash-valued operators installed through the exported GetOperator field, marshalled and loaded with NewModelFromBytes, every intermediate declared as an output; judged in Coq against S and M.",
    "note": "Trusted: Coq kernel + vm_compute; harness (symbolic operators, graph printer); Go map iteration order is abstracted (later duplicate key wins). The real registry's freshness is C15's obligation.",
    "technique": "Coq proof (Run model = demand-driven dataflow semantics) + symbolic-operator DAG correspondence check judged in Coq",
}
CHECKS["C12"] = {
    "text": "Theorems (axiom-free): for EVERY TensorProto outside one known-finding class the model of TensorFromProto (data_type switch, typed-field-else-raw, fixed-width little-endian read loops with buffer and element size kept apart, narrowing conversions, dims and element-count check; as repaired by five fix: commits) returns exactly what the specification written from the ONNX TensorProto documentation prescribes: the declared shape, element type and values bit for bit, or an error (c12_model_refines_spec); it never panics and never returns a payload whose length contradicts the shape; the readers invert the little-endian encoder for every width and length; partial trailing elements are refused; the uint64 reader as first written never decoded anything. Tie: generated protos (11 types x typed/raw x rank 0..4 x bit patterns incl. NaN payloads; perturbed lengths and dims; all other type codes x every field) through onnx.TensorFromProto and through NewModelFromBytes+Run, compared bit for bit in Coq.",
    "note": "Trusted: Coq kernel + vm_compute; bytes.Reader/binary.LittleEndian/tensor.New modelled; harness and driver. Known finding: data_type UNDEFINED with a populated typed field is loaded (pinned by the repository's own TestConstantOfShape fixture).",
    "technique": "Coq proof (decoder model refines ONNX TensorProto spec; reader/encoder round trip) + bit-exact correspondence check judged in Coq",
}
CHECKS["C13"] = {
    "text": "Theorems (axiom-free): the model of validateShapes accepts a supplied set iff every declared input carrying a shape is an initializer or is supplied with the declared rank and every fixed dimension equal (dynamic dimensions accept any size; extra tensors ignored); a rejected Run is the shape error reported before any node runs. Tie: seeded random signatures (1..3 inputs, rank 1..4, fixed/symbolic/unspecified dims, initializer-shadowed inputs) x supplied sets (exact, missing, extra, swapped, rank +-1, axis off by one) run through NewModelFromBytes + Run with symbolic operators, accept/reject and outputs judged in Coq against S (acceptance predicate in the property's words) and M; introspection methods (InputNames/InputShapes/InputDimSize) compared with the declaration and supplied tensors re-read after rejected Runs (decided in Go).",
    "note": "Trusted: Coq kernel + vm_compute; harness; declared inputs of rank 0 or without shape information are outside the property's quantifier and are not validated by the code.",
    "technique": "Coq proof (validateShapes model = acceptance predicate) + signature/feed correspondence check judged in Coq",
}
CHECKS["C18"] = {
    "text": "PARTIAL by nature (the protobuf wire parser is third party and not modelled). Theorems (axiom-free) over the parsed structure: load never panics for any structure (rests on C12's decoder theorem); whatever loads has an implemented version as its highest import (maximum over all domains, 0 if none); otherwise THE unsupported-opset error provided the initializers decode; a graph with a node of unregistered type never completes and fails with the unsupported-operator error once the earlier nodes succeed. Obligation re-proved on every run over the opset table regenerated from /repo: supported_opsets = [13]. Tie: generated structures (initializers from C12's generator incl. malformed ones x opset import lists) through NewModelFromBytes judged in Coq against S and M. Explored, not proved: NewModelFromBytes under recover() on every truncation of the sample models, bit-flip/splice mutants, arbitrary bytes, structured mutants (a panic is a violation); real graphs with unregistered operator types through the real registry must fail with ErrUnsupportedOperator.",
    "note": "Trusted: Coq kernel + vm_compute; opset table translator (probes ResolveOperatorGetter over -2..40); harness; proto.Unmarshal unmodelled.",
    "technique": "Coq proof over the parsed-structure load model + regenerated opset table + byte-level fuzzing under recover() (exploration)",
}

_PENDING = "check under construction in this round; not yet claimed"
NOT_APPLICABLE = {p: _PENDING for p in ["C02", "C04", "C05", "C06", "C09", "C10", "C11", "C16", "C17"]}
