HOOKS = {
    "guard": "verif",
    "enable": "go build -tags verif (the harness under /verif/harness is built with this tag against /repo's working tree on every run)",
    "baseline_off_cmd": "cd /repo && go test -vet=off -count=1 ./...",
    "source_commits": [],
    "add_only": True,
}
ENGINES = [{
    "name": "coq-proof+correspondence",
    "path": "/verif/coq (theories, templates), /verif/harness (Go), /verif/bin/check (driver)",
    "serves_properties": [],
    "kind_free_text": "Machine-checked proof in Coq 8.16.1 about a hand-written executable Gallina model M of the code and a specification S written from the property; M is tied to /repo on every run by (1) tables regenerated from the source and re-proved, (2) a correspondence check: generated cases are executed on the implementation, inputs and observed outcomes are written as Gallina literals and judged inside Coq by vm_compute against both M and S.",
}]
NOTES = "Exit codes of bin/check: 0 held, 1 VIOLATION printed, 2 the check itself is broken. All scratch under /verif/build; replays under /verif/replays."

CHECKS = {
    "C15": {
        "text": "Theorems (axiom-free): for every operator description with min<=max<=|constraints| and every input list of any length the gate model returns a count/type input error exactly when the statement says so, otherwise the inputs unchanged, in order, padded with absent; never a panic; the side condition is necessary; Concat's and PRelu's layers; lookups return instances whose state is independent of all other lookups. Tie: the operator table is regenerated from the code on every run and the well-formedness/freshness obligations are re-proved over it by computation; the whole finite gate space (55 operators x counts x 14 dtypes per position x nil at optional positions, ~12k calls) is enumerated on the implementation under recover() and judged in Coq against S and M.",
        "note": "Trusted: Coq kernel + vm_compute; the table translator (harness/table.go); the harness' classification of errors (errors.As *ops.InputError + message kind); the driver. Freshness of lookups is observed as pointer inequality (or zero-size type), not proved of the Go registry.",
        "technique": "Coq proof over gate/registry model + regenerated operator table re-proved by vm_compute + exhaustive gate enumeration judged in Coq",
    },
}

_PENDING = "check under construction in this round; not yet claimed"
NOT_APPLICABLE = {p: _PENDING for p in ["C01", "C02", "C03", "C04", "C05", "C06", "C07", "C08", "C09", "C10", "C11", "C12", "C13", "C14", "C16", "C17", "C18"]}
