#!/usr/bin/env python3
"""Regenerates MANIFEST.json from bin/manifest_data.py (kept in one place so it stays valid)."""
import json, os, sys
ROOT = os.path.dirname(os.path.dirname(os.path.abspath(__file__)))
sys.path.insert(0, os.path.join(ROOT, "bin"))
from manifest_data import CHECKS, NOT_APPLICABLE, HOOKS, NOTES, ENGINES

checks = []
for pid in sorted(CHECKS):
    c = CHECKS[pid]
    checks.append({
        "property_id": pid,
        "quick_cmd": "bin/check %s quick" % pid,
        "thorough_cmd": "bin/check %s thorough" % pid,
        "evidence_file": "/verif/evidence/%s.json" % pid,
        "replay_cmd_template": "bin/check --replay {path}",
        "engine": "coq-proof+correspondence",
        "level_claimed": {"category": c.get("category", "proof"), "text": c["text"], "design_ref": c.get("design_ref", "DESIGN.md section 5/" + pid)},
        "level_note": c["note"],
        "technique": c["technique"],
    })
m = {
    "version": 1,
    "setup_cmd": "bin/check --setup",
    "hooks": HOOKS,
    "engines": ENGINES,
    "checks": checks,
    "notes": NOTES,
    "not_applicable": [{"property_id": p, "reason": r} for p, r in sorted(NOT_APPLICABLE.items())],
}
json.dump(m, open(os.path.join(ROOT, "MANIFEST.json"), "w"), indent=1)
print("MANIFEST.json:", len(checks), "checks,", len(NOT_APPLICABLE), "not applicable")
