"""Per-property configuration of the driver."""

COMMON_TB = [
    "Coq 8.16.1 kernel incl. its vm_compute machine (no native_compute); full .vo build",
    "hand-written Gallina model M of the Go code, tied to /repo by the correspondence check only (sampling)",
    "Go harness under /verif/harness: generators, Gallina literal printer, outcome classification under recover()",
    "driver bin/check: parses the verdict lists printed by coqc, cross-checks their length against the number of cases written",
    "modelled, not verified: gorgonia.org/tensor v0.9.24, Go math, protobuf",
]

PROPS = {
    "C15": {
        "templates": ["TableC15.v"],
        "check_modules": ["theories/Check/CheckC15.v"],
        "theorem": "C15_gate / optable13_wf / C15_instance_state_independent",
        "trusted_base": COMMON_TB + ["table translator harness/table.go (dumps GetOpNames/GetMinInputs/GetMaxInputs/GetInputTypeConstraints into OpTable.v)"],
        "assumptions": ["the operator table is read through the public getters of each operator; an operator whose gate ignores them is caught only by the exhaustive enumeration, not by the table obligation"],
        "explain": {
            "C15_gate": "Eval vm_compute in (let '(n, ins, obs) := the_case in match lookup optable13 n with Some o => (model_obs o ins, holds o ins obs, o) | None => (GOPanic, false, {| o_name := n; o_min := 0; o_max := 0; o_cons := []; o_fresh := false; o_dyn := false |}) end).",
            "C15_registry": "Eval vm_compute in (rverdict optable13 the_case).",
        },
    },
    "C14": {
        "check_modules": ["theories/Check/CheckC14.v"],
        "theorem": "C14_multidir / C14_unidir",
        "trusted_base": COMMON_TB,
        "assumptions": ["gorgonia Repeat/Reshape are modelled (G/Repeat.v, G/Reshape.v); extents >= 1 (gorgonia cannot build a tensor with a zero extent)"],
        "explain": {
            "C14_pairs": "Eval vm_compute in (spec the_case, model the_case, sources_intact the_case).",
            "C14_random": "Eval vm_compute in (spec the_case, model the_case, sources_intact the_case).",
        },
    },
    "C07": {
        "check_modules": ["theories/Check/CheckC07.v"],
        "theorem": "C07_*",
        "trusted_base": COMMON_TB,
        "assumptions": ["gorgonia Reshape on a fresh clone is modelled as: element-count check, then panic on a negative extent"],
        "explain": {"C07_ops": "Eval vm_compute in (spec the_case, model the_case, known_class the_case)."},
    },
    "C08": {
        "check_modules": ["theories/Check/CheckC08.v"],
        "theorem": "C08_*",
        "trusted_base": COMMON_TB,
        "assumptions": ["gorgonia Slice/Transpose/Concat/Repeat are modelled (G/Slice.v, Model/IndexOps.v); in the region where a gorgonia slice has start = end the library reads through an empty view and the model does not predict it (class slice-empty)"],
        "explain": {"C08_ops": "Eval vm_compute in (spec the_case, model the_case, known_class the_case)."},
    },
    "C03": {
        "check_modules": ["theories/Check/CheckC03.v"],
        "theorem": "C03_*",
        "trusted_base": COMMON_TB + ["Flocq 4.1 IEEE754.Bits/Binary (b32_*/b64_* operations, Bcompare) as the definition of IEEE-754 arithmetic"],
        "assumptions": ["gorgonia's elementwise kernels are modelled by the scalar functions of Model/Scalar.v; integer division by zero is outside the property and not generated"],
        "explain": {"C03_ops": "Eval vm_compute in (spec the_case, model optable13 the_case, known_class the_case)."},
    },
    "C12": {
        "check_modules": ["theories/Check/CheckC12.v"],
        "theorem": "C12_*",
        "trusted_base": COMMON_TB,
        "assumptions": ["bytes.Reader.Read and binary.LittleEndian are modelled by read_loop/le; tensor.New is modelled as returning the given backing with the given shape"],
        "explain": {"C12_decode": "Eval vm_compute in (spec the_case, model the_case, known_class the_case).",
                    "C12_load": "Eval vm_compute in (spec the_case, model the_case, known_class the_case)."},
    },
    "C01": {
        "check_modules": ["theories/Check/CheckC01.v"],
        "theorem": "C01_*",
        "trusted_base": COMMON_TB,
        "assumptions": ["operators are abstract in the theorems (any operator semantics); the real registry is exercised by the real-operator stream"],
        "explain": {"C01_symbolic": "Eval vm_compute in (run (sc_graph the_case) (sc_feed the_case), spec_outputs (sc_graph the_case) (sc_feed the_case), kind the_case)."},
    },
    "C13": {
        "check_modules": ["theories/Check/CheckC13.v"],
        "theorem": "C13_*",
        "trusted_base": COMMON_TB,
        "assumptions": ["declared inputs carry a tensor type with a shape of rank >= 1 (the property's quantifier); Go iterates the shape map in random order, only accept/reject is compared"],
        "explain": {"C13_signatures": "Eval vm_compute in (accepts (sc_graph the_case) (sc_feed the_case), run (sc_graph the_case) (sc_feed the_case), in_domain the_case)."},
    },
    "C18": {
        "templates": ["TableC18.v"],
        "check_modules": ["theories/Check/CheckC18.v"],
        "theorem": "C18_*",
        "trusted_base": COMMON_TB + ["proto.Unmarshal (third party) is not modelled: M starts after it; the byte-level half is explored under recover(), not proved"],
        "assumptions": ["the set of implemented opset versions is read from opset.go by probing ResolveOperatorGetter over versions -2..40"],
        "explain": {"C18_load": "Eval vm_compute in (load supported_opsets {| m_inits := lc_inits the_case; m_opsets := lc_opsets the_case |}, holds supported_opsets the_case, map init_status_of (lc_inits the_case))."},
    },
    "C02": {
        "check_modules": ["theories/Check/CheckC02.v"],
        "theorem": "C02_*",
        "trusted_base": COMMON_TB + ["hook: /repo/verif_hooks.go (build tag verif) exposes Model.parameters read-only"],
        "assumptions": ["purity of the Go operators cannot be proved from a hand-written model: it is what the effect and history streams observe; the theorems take it as the premise pure_ops"],
        "explain": {"C02_effects": "Eval vm_compute in (intact the_case, oc_ins the_case, oc_after the_case)."},
    },
    "C17": {
        "race": True,
        "check_modules": [],
        "theorem": "C17_interleaving_independent",
        "trusted_base": COMMON_TB + ["the Go race detector (go build -race) for the runtime half"],
        "assumptions": ["a data race is a property of the Go memory model and of gorgonia's global pools; no executable Gallina model exhibits it: the theorem covers the logical half (no Run writes state another Run reads, under pure_ops), the runtime half is explored under the race detector"],
        "explain": {},
    },
    "C05": {
        "check_modules": ["theories/Check/CheckC05.v"],
        "theorem": "C05_*",
        "trusted_base": COMMON_TB,
        "assumptions": ["integer-valued float data: every intermediate value is an integer below 2^24, so float32/float64 arithmetic is exact and the comparison is exact; rounding of non-integer data is bounded by the dot-product length and not re-checked here"],
        "explain": {"C05_conv": "Eval vm_compute in (spec the_case, model the_case, known_class the_case)."},
    },
}
