package main

import (
	"fmt"
	"math"
	"math/rand"

	"github.com/advancedclimatesystems/gonnx/ops/opset13"
	"gorgonia.org/tensor"
)

var f32pool = []float32{0, float32(math.Copysign(0, -1)), 1, -1, 2.5, -3.75, float32(math.Inf(1)), float32(math.Inf(-1)), float32(math.NaN()),
	math.MaxFloat32, -math.MaxFloat32, math.SmallestNonzeroFloat32, 1.1754944e-38, 1e-40, 3, 7, 0.1, 1e30, -1e30, 16777216, 16777217}
var f64pool = []float64{0, math.Copysign(0, -1), 1, -1, 2.5, -3.75, math.Inf(1), math.Inf(-1), math.NaN(),
	math.MaxFloat64, -math.MaxFloat64, math.SmallestNonzeroFloat64, 2.2250738585072014e-308, 1e-310, 3, 7, 0.1, 1e300, -1e300}
var i32pool = []int32{0, 1, -1, 2, -2, 7, -7, 3, math.MaxInt32, math.MinInt32, math.MaxInt32 - 1, 46341, -46341}
var i64pool = []int64{0, 1, -1, 2, -2, 7, -7, 3, math.MaxInt64, math.MinInt64, math.MaxInt64 - 1, 3037000500, -3037000500}
var u32pool = []uint32{0, 1, 2, 3, 7, math.MaxUint32, math.MaxUint32 - 1, 65536, 65537}
var u64pool = []uint64{0, 1, 2, 3, 7, math.MaxUint64, math.MaxUint64 - 1, 1 << 63, 4294967296}

// build a tensor of the given dtype and shape from the pool; nonzero: avoid zero (integer divisors)
func poolTensor(r *rand.Rand, d tensor.Dtype, shape []int, nonzero bool) tensor.Tensor {
	n := numel(shape)
	var backing interface{}
	switch d {
	case tensor.Float32:
		b := make([]float32, n)
		for i := range b {
			b[i] = f32pool[r.Intn(len(f32pool))]
		}
		backing = b
	case tensor.Float64:
		b := make([]float64, n)
		for i := range b {
			b[i] = f64pool[r.Intn(len(f64pool))]
		}
		backing = b
	case tensor.Int32:
		b := make([]int32, n)
		for i := range b {
			for b[i] = i32pool[r.Intn(len(i32pool))]; nonzero && b[i] == 0; b[i] = i32pool[r.Intn(len(i32pool))] {
			}
		}
		backing = b
	case tensor.Int64:
		b := make([]int64, n)
		for i := range b {
			for b[i] = i64pool[r.Intn(len(i64pool))]; nonzero && b[i] == 0; b[i] = i64pool[r.Intn(len(i64pool))] {
			}
		}
		backing = b
	case tensor.Uint32:
		b := make([]uint32, n)
		for i := range b {
			for b[i] = u32pool[r.Intn(len(u32pool))]; nonzero && b[i] == 0; b[i] = u32pool[r.Intn(len(u32pool))] {
			}
		}
		backing = b
	case tensor.Uint64:
		b := make([]uint64, n)
		for i := range b {
			for b[i] = u64pool[r.Intn(len(u64pool))]; nonzero && b[i] == 0; b[i] = u64pool[r.Intn(len(u64pool))] {
			}
		}
		backing = b
	case tensor.Int8:
		b := make([]int8, n)
		for i := range b {
			b[i] = int8(r.Intn(256) - 128)
		}
		backing = b
	case tensor.Int16:
		b := make([]int16, n)
		for i := range b {
			b[i] = int16(r.Intn(65536) - 32768)
		}
		backing = b
	case tensor.Uint8:
		b := make([]uint8, n)
		for i := range b {
			b[i] = uint8(r.Intn(256))
		}
		backing = b
	case tensor.Uint16:
		b := make([]uint16, n)
		for i := range b {
			b[i] = uint16(r.Intn(65536))
		}
		backing = b
	case tensor.Bool:
		b := make([]bool, n)
		for i := range b {
			b[i] = r.Intn(2) == 1
		}
		backing = b
	default:
		vals := make([]int64, n)
		for i := range vals {
			vals[i] = int64(r.Intn(4))
		}
		return mkT(d, shape, vals)
	}
	if len(shape) == 0 {
		switch b := backing.(type) {
		case []float32:
			return tensor.New(tensor.FromScalar(b[0]))
		case []float64:
			return tensor.New(tensor.FromScalar(b[0]))
		case []int32:
			return tensor.New(tensor.FromScalar(b[0]))
		case []int64:
			return tensor.New(tensor.FromScalar(b[0]))
		case []uint32:
			return tensor.New(tensor.FromScalar(b[0]))
		case []uint64:
			return tensor.New(tensor.FromScalar(b[0]))
		case []bool:
			return tensor.New(tensor.FromScalar(b[0]))
		case []int8:
			return tensor.New(tensor.FromScalar(b[0]))
		case []int16:
			return tensor.New(tensor.FromScalar(b[0]))
		case []uint8:
			return tensor.New(tensor.FromScalar(b[0]))
		case []uint16:
			return tensor.New(tensor.FromScalar(b[0]))
		}
	}
	return tensor.New(tensor.WithShape(shape...), tensor.WithBacking(backing))
}

func genC03(dir, tier string, seed int64) {
	perOp := 130
	if tier == "thorough" {
		perOp = 10000
	}
	hdr := "From Coq Require Import List String ZArith.\nFrom V Require Import DType Case CheckC03.\nFrom Gen Require Import OpTable.\nImport ListNotations.\nOpen Scope string_scope.\nOpen Scope Z_scope.\nDefinition cases : list opcase := ["
	ftr := "].\nDefinition verdicts := Eval vm_compute in map (verdict optable13) cases.\nPrint verdicts.\nDefinition kinds := Eval vm_compute in map kind cases.\nPrint kinds."
	cw := newCaseWriter(dir, "C03_ops", hdr, ftr,
		"seeded random: 12 operators x every dtype the gate accepts (read from the operator itself) x shape pairs of rank 0..3 extents 1..3 (B derived from A by dropping leading axes / setting axes to 1 / stretching 1s, 1 in 4 unrelated; either operand may be the larger; one pair in six with extents 4..6 that divide one another or are coprime) x value pools with NaN, +-Inf, +-0, subnormals, max finite, integer extremes and wrap-around operands; integer divisors never 0 (undefined by the property)", false, 400)
	r := rand.New(rand.NewSource(seed))
	names := []string{"Add", "Sub", "Mul", "Div", "Equal", "Greater", "GreaterOrEqual", "Less", "LessOrEqual", "And", "Or", "Xor"}
	shapes := shapesUpToRank(0, 3, []int{1, 2, 3})
	for _, op := range names {
		o, err := opset13.GetOperator(op)
		if err != nil {
			continue
		}
		cons := o.GetInputTypeConstraints()
		if len(cons) == 0 {
			continue
		}
		accepted := cons[0]
		// also probe dtypes the gate refuses (about 1 case in 12)
		for k := 0; k < perOp; k++ {
			d := accepted[r.Intn(len(accepted))]
			if r.Intn(12) == 0 {
				d = dtypes[r.Intn(len(dtypes))]
			}
			sa := shapes[r.Intn(len(shapes))]
			var sb []int
			switch r.Intn(4) {
			case 0: // unrelated (mostly incompatible)
				sb = shapes[r.Intn(len(shapes))]
			default: // derived from sa: drop leading axes, set some to 1, stretch some 1s
				drop := r.Intn(len(sa) + 1)
				sb = append([]int{}, sa[drop:]...)
				for i := range sb {
					switch r.Intn(4) {
					case 0:
						sb[i] = 1
					case 1:
						if sb[i] == 1 {
							sb[i] = 1 + r.Intn(3)
						}
					}
				}
				if r.Intn(5) == 0 {
					sb = append([]int{1 + r.Intn(2)}, sb...)
				}
			}
			if r.Intn(6) == 0 {
				// larger extents, the clashing ones multiples of one another (2|4, 3|6, 2|6) or coprime (4,5)
				pairs := [][2]int{{2, 4}, {3, 6}, {2, 6}, {4, 5}, {4, 4}, {1, 5}, {5, 1}, {4, 2}}
				p := pairs[r.Intn(len(pairs))]
				sa, sb = []int{p[0]}, []int{p[1]}
				if r.Intn(2) == 0 {
					sa, sb = []int{2, p[0]}, []int{p[1]}
				}
				if r.Intn(3) == 0 {
					sa, sb = []int{p[0], 3}, []int{p[1], 3}
				}
			}
			if r.Intn(2) == 0 {
				sa, sb = sb, sa
			}
			a := poolTensor(r, d, sa, false)
			b := poolTensor(r, d, sb, op == "Div")
			if k < 16 { // x op x: both operands hold the same values (separate objects here; the aliased_operands observation passes ONE object); floats in half of them, so that NaN op NaN, Inf - Inf, 0/0 are met
				if k%2 == 0 {
					for _, fd := range accepted {
						if fd == tensor.Float32 || fd == tensor.Float64 {
							d = fd
						}
					}
				}
				sa = shapes[len(shapes)-1-r.Intn(6)]
				a = poolTensor(r, d, sa, op == "Div")
				b = a.Clone().(tensor.Tensor)
				sb = sa
			}
			emitOp(cw, op, nil, func() []tensor.Tensor { return []tensor.Tensor{a.Clone().(tensor.Tensor), b.Clone().(tensor.Tensor)} })
			count("dtype", d.String())
			count("rank_pair", fmt.Sprintf("%d-%d", len(sa), len(sb)))
		}
	}
	cw.close()
}
