package main

import (
	"fmt"
	"math/rand"
	"strings"
)

// random symbolic DAG; faultRate: 1 in faultRate structural choices is a fault
func randomSymGraph(r *rand.Rand, maxNodes, faultRate int) *sgraphCase {
	fault := func(n int) bool { return faultRate > 0 && r.Intn(n*faultRate) == 0 }
	c := &sgraphCase{initVals: map[string]stens{}, feed: map[string]stens{}, opset: 13}
	nIn, nInit := 1+r.Intn(3), r.Intn(3)
	var avail []string
	one := []sdim{{kind: "fixed", value: 1}}
	for i := 0; i < nIn; i++ {
		// declared names are in no particular (in particular: not in ascending) order
		n := fmt.Sprintf("%c_i%d", "zqmcXB"[r.Intn(6)], i)
		c.inputs = append(c.inputs, sinput{name: n, dims: one})
		avail = append(avail, n)
		if !fault(3) { // rarely: a declared input is not supplied
			c.feed[n] = stens{[]int{1}, int64(100 + r.Intn(900))}
			c.feedOrd = append(c.feedOrd, n)
		}
	}
	for i := 0; i < nInit; i++ {
		n := fmt.Sprintf("%c_w%d", "ybkAr"[r.Intn(5)], i)
		c.inits = append(c.inits, n)
		c.initVals[n] = stens{[]int{1}, int64(2000 + r.Intn(900))}
		avail = append(avail, n)
		if r.Intn(3) == 0 { // initializer also declared as graph input (a default)
			// ... with a shape, without any shape information, or as a rank-0 value info
			switch r.Intn(3) {
			case 0:
				c.inputs = append(c.inputs, sinput{name: n, noShape: true})
			case 1:
				c.inputs = append(c.inputs, sinput{name: n, dims: nil})
			default:
				c.inputs = append(c.inputs, sinput{name: n, dims: one})
			}
			if false {
				c.inputs = append(c.inputs, sinput{name: n, dims: one})
			}
			if r.Intn(2) == 0 { // and the caller overrides it
				c.feed[n] = stens{[]int{1}, int64(5000 + r.Intn(900))}
				c.feedOrd = append(c.feedOrd, n)
			}
		} else if r.Intn(10) == 0 { // caller passes a tensor named like a constant initializer
			c.feed[n] = stens{[]int{1}, int64(6000 + r.Intn(900))}
			c.feedOrd = append(c.feedOrd, n)
		}
	}
	if r.Intn(8) == 0 { // an extra, undeclared tensor, which a node may read by name
		c.feed["extra"] = stens{[]int{1}, 42}
		c.feedOrd = append(c.feedOrd, "extra")
		if r.Intn(2) == 0 {
			avail = append(avail, "extra")
		}
	}
	nNodes := 1 + r.Intn(maxNodes)
	var produced []string
	for j := 0; j < nNodes; j++ {
		n := snode{op: int64(1 + r.Intn(4)), attr: int64(r.Intn(5)), nout: 1 + r.Intn(3)}
		if fault(12) {
			n.op = 1000 + int64(r.Intn(5)) // unregistered operator type
		}
		if fault(12) {
			n.fail = true
		}
		for k := r.Intn(4); k > 0; k-- {
			switch {
			case r.Intn(8) == 0:
				n.in = append(n.in, "") // skipped optional input
			case fault(16):
				n.in = append(n.in, "undefined_name")
			default:
				// prefer recent tensors so that graphs are deep, not wide
				if len(produced) > 0 && r.Intn(2) == 0 {
					n.in = append(n.in, produced[len(produced)-1-r.Intn(minInt(3, len(produced)))])
				} else {
					n.in = append(n.in, avail[r.Intn(len(avail))])
				}
			}
		}
		nNames := n.nout
		if fault(8) {
			nNames = n.nout + 1 - 2*r.Intn(2) // wrong number of output names
		}
		for k := 0; k < nNames; k++ {
			switch {
			case k > 0 && r.Intn(6) == 0:
				n.out = append(n.out, "") // omitted output
			case len(produced) > 0 && r.Intn(30) == 0:
				name := produced[r.Intn(len(produced))] // re-binds an existing name
				n.out = append(n.out, name)
			default:
				name := fmt.Sprintf("n%d_%d", j, k)
				if r.Intn(3) == 0 {
					name = fmt.Sprintf("t%c%d", 'a'+rune(r.Intn(26)), j*4+k) // arbitrary names
				}
				if r.Intn(8) == 0 {
					// names that are prefixes / extensions of one another, carry separators or non-ASCII
					// characters, are very long, or coincide with words the library uses
					odd := []string{"a", "aa", "a.b", "a/b", "a:0", "a_0", "Y", "Y_h", "Y_c", "output", "input", "Abs", "w0x", "i0x", "x i", "\u540d\u524d", "n\u00e4me", strings.Repeat("L", 300)}
					cand := odd[r.Intn(len(odd))] + fmt.Sprintf("%d", r.Intn(3))
					if r.Intn(2) == 0 {
						cand = odd[r.Intn(len(odd))]
					}
					fresh := true
					for _, a := range avail {
						if a == cand {
							fresh = false
						}
					}
					for _, a := range n.out {
						if a == cand {
							fresh = false
						}
					}
					if fresh {
						name = cand
					}
				}
				n.out = append(n.out, name)
				produced = append(produced, name)
			}
		}
		c.nodes = append(c.nodes, n)
		for _, o := range n.out {
			if o != "" {
				avail = append(avail, o)
			}
		}
	}
	// declared outputs: every intermediate, plus sometimes an input and rarely a name nothing binds
	c.outputs = uniq(produced)
	if len(c.outputs) > 1 && r.Intn(3) == 0 {
		// only SOME of the names are declared: the other nodes are dead code, and a fault in a dead
		// node (unregistered type, failing operator, undefined name) must still make Run fail
		r.Shuffle(len(c.outputs), func(i, j int) { c.outputs[i], c.outputs[j] = c.outputs[j], c.outputs[i] })
		c.outputs = c.outputs[:1+r.Intn(len(c.outputs)-1)]
	}
	if r.Intn(4) == 0 {
		c.outputs = append(c.outputs, c.inputs[0].name)
	}
	if len(c.inits) > 0 && r.Intn(6) == 0 {
		c.outputs = append(c.outputs, c.inits[0])
	}
	if fault(5) {
		c.outputs = append(c.outputs, "never_bound")
	}
	if r.Intn(3) == 0 {
		// the same Model is run once before the observed call, with other values and with EVERY default
		// input overridden: nothing of that call (a binding, an override) may survive into the observed one
		c.warm = map[string]stens{}
		for n, v := range c.feed {
			c.warm[n] = stens{v.shape, v.val + 10000}
		}
		for _, in := range c.inputs {
			for _, w := range c.inits {
				if in.name == w {
					c.warm[w] = stens{[]int{1}, int64(7000 + r.Intn(900))}
				}
			}
		}
	}
	return c
}

func minInt(a, b int) int {
	if a < b {
		return a
	}
	return b
}

func genC01(dir, tier string, seed int64) {
	r := rand.New(rand.NewSource(seed))
	n := 400
	if tier == "thorough" {
		n = 20000
	}
	cw := newCaseWriter(dir, "C01_symbolic", symHeader, opFooter,
		"seeded random DAGs over symbolic operators (outputs are hashes of operator id, attribute, input values and output index): 1..3 declared inputs, 0..2 initializers (some also declared as inputs and overridden or not, some shadowed by a caller tensor of the same name), extra caller tensors, 1..12 nodes with fan-in 0..3 and 1..3 outputs, skipped optional inputs (\"\"), omitted and arbitrarily named outputs (1 in 8: names that are prefixes of one another, carry '.', '/', ':' or non-ASCII characters, are 300 characters long or coincide with Y / Y_h / Abs / input / output), one graph in ten with up to 70 nodes, re-bound names, repeated operator types with different attributes; every intermediate declared as a graph output in two cases of three, a random subset of them in the third (the rest of the graph is then dead code, faults included); about 1 case in 6 carries a fault (missing input, unregistered operator type, failing node, undefined name, wrong output count, unbound output); in one case of three the same Model is first run once with other values and every default input overridden; marshalled and loaded with NewModelFromBytes", false, 100)
	for i := 0; i < n; i++ {
		fr := 6
		if i%3 == 0 {
			fr = 0 // a third of the graphs carry no fault at all: deep successful runs
		}
		mx := 12
		if i%10 == 9 {
			mx = 70 // one graph in ten is large (up to 70 nodes: maps and slices grow past their initial sizes)
		}
		c := randomSymGraph(r, mx, fr)
		obs := c.observe()
		cw.write(c.gallina(obs))
		count("nodes", fmt.Sprint(len(c.nodes)))
		count("observed", obs[1:8])
	}
	cw.close()
	genC01Real(tier, seed)
}
