package main

import (
	"math"
	"fmt"
	"math/rand"

	"gorgonia.org/tensor"
)

func i64v(vals []int64) tensor.Tensor {
	return tensor.New(tensor.WithShape(len(vals)), tensor.WithBacking(append([]int64{}, vals...)))
}

// all non-empty sequences over vals of length <= maxLen
func seqs(vals []int64, maxLen int) [][]int64 {
	var res [][]int64
	var rec func(cur []int64)
	rec = func(cur []int64) {
		if len(cur) > 0 {
			res = append(res, append([]int64{}, cur...))
		}
		if len(cur) == maxLen {
			return
		}
		for _, v := range vals {
			rec(append(cur, v))
		}
	}
	rec(nil)
	return res
}

func genC07(dir, tier string, seed int64) {
	r := rand.New(rand.NewSource(seed))
	maxRank := 3
	keep := 4 // quick: keep every case of rank<=2, one in `keep` of rank 3
	if tier == "thorough" {
		maxRank, keep = 4, 1
	}
	cw := newCaseWriter(dir, "C07_ops", opHeader("CheckC07"), opFooter,
		fmt.Sprintf("bounded-exhaustive: all shapes of rank 0..%d with extents 1..3 x (Shape; Squeeze without axes and with every axes list of length<=2 over [-r-1,r]; Unsqueeze with every axes list of length 1..2 over [-(r+n)-1,r+n]; seeded axes lists of 3 and 4 entries for both (unsorted, mixed spellings, half of them with one axis twice at non-neighbouring positions); Flatten with every axis in [-r-2,r+2], the int64 / int32 extremes and default; Reshape to every target of length<=3 over {-2,-1,0,1,2,3,4,6,9}); index-coded data; dtype round-robin over all 14; quick tier keeps all cases of rank<=2 and a seeded 1/%d sample of rank 3", maxRank, keep), tier == "thorough", 1500)
	k := 0
	for _, s := range shapesUpToRank(0, maxRank, []int{1, 2, 3}) {
		s := s
		rk := len(s)
		sel := func() bool { return rk <= 2 || keep == 1 || r.Intn(keep) == 0 }
		data := func() tensor.Tensor {
			return mkT(dtypes[k%14], s, iota64(numel(s), 100))
		}
		emit := func(op string, attrs []attr, extra ...func() tensor.Tensor) {
			if !sel() {
				return
			}
			k++
			emitOp(cw, op, attrs, func() []tensor.Tensor {
				ins := []tensor.Tensor{data()}
				for _, e := range extra {
					ins = append(ins, e())
				}
				return ins
			})
			count("rank", fmt.Sprint(rk))
		}
		emit("Shape", nil)
		emit("Squeeze", nil)
		var av []int64
		for a := -rk - 1; a <= rk; a++ {
			av = append(av, int64(a))
		}
		for _, axes := range seqs(av, 2) {
			axes := axes
			emit("Squeeze", nil, func() tensor.Tensor { return i64v(axes) })
		}
		for n := 1; n <= 2; n++ {
			var uv []int64
			for a := -(rk + n) - 1; a <= rk+n; a++ {
				uv = append(uv, int64(a))
			}
			for _, axes := range seqs(uv, n) {
				if len(axes) != n {
					continue
				}
				axes := axes
				emit("Unsqueeze", nil, func() tensor.Tensor { return i64v(axes) })
			}
		}
		// longer axes lists (3 and 4 entries), seeded: unsorted, mixed spellings, and in half of them one axis
		// twice (in either spelling) at positions that are NOT next to each other
		for n := 3; n <= 4; n++ {
			for rep := 0; rep < 4; rep++ {
				for _, op := range []string{"Unsqueeze", "Squeeze"} {
					total := rk
					if op == "Unsqueeze" {
						total = rk + n
					}
					if total == 0 {
						continue
					}
					axes := make([]int64, n)
					perm := r.Perm(total)
					for i := range axes {
						axes[i] = int64(perm[i%total])
						if r.Intn(2) == 0 {
							axes[i] -= int64(total)
						}
					}
					if rep%2 == 1 { // the first axis again, at the end, possibly in the other spelling
						axes[n-1] = axes[0]
						if r.Intn(2) == 0 {
							if axes[0] < 0 {
								axes[n-1] += int64(total)
							} else {
								axes[n-1] -= int64(total)
							}
						}
					}
					emit(op, nil, func() tensor.Tensor { return i64v(axes) })
				}
			}
		}
		for a := -rk - 2; a <= rk+2; a++ {
			emit("Flatten", []attr{aInt("axis", int64(a))})
		}
		for _, a := range []int64{math.MinInt64, math.MinInt64 + 1, math.MaxInt64, -(1 << 32), 1 << 32, -(1 << 31), 1<<31 - 1} {
			emit("Flatten", []attr{aInt("axis", a)}) // extreme axes: refused like any other out-of-range axis
		}
		emit("Flatten", nil)
		for _, tgt := range seqs([]int64{-2, -1, 0, 1, 2, 3, 4, 6, 9}, 3) {
			tgt := tgt
			emit("Reshape", nil, func() tensor.Tensor { return i64v(tgt) })
		}
	}
	cw.close()
}
