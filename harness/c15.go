package main

import (
	"errors"
	"fmt"
	"github.com/advancedclimatesystems/gonnx/onnx"
	"reflect"
	"strings"

	"github.com/advancedclimatesystems/gonnx/ops"
	"github.com/advancedclimatesystems/gonnx/ops/opset13"
	"gorgonia.org/tensor"
)

// one gate call under recover; outcome in the vocabulary of Check/CheckC15.v.
// The call is made three ways, which must agree (else GOChanged): on a fresh instance; on an instance
// whose gate was first called with LONGER input lists (a gate must not remember an earlier call's
// arity); and, for zero inputs, with a nil slice instead of an empty one (what Model.Run passes for a
// node without inputs).
func gateCall(name string, ins []tensor.Tensor) (out string) {
	fresh := gateOnce(name, ins, 0, false)
	if used := gateOnce(name, ins, 2, false); used != fresh {
		return "GOChanged"
	}
	if len(ins) == 0 {
		if asNil := gateOnce(name, ins, 0, true); asNil != fresh {
			return "GOChanged"
		}
	}
	// ... on an instance that was INITIALISED with the attributes of each of the operator's fixtures (the gate
	// is a property of the operator, not of a node's attributes) ...
	for _, fx := range gateFixtures[name] {
		if inited := gateOnceInit(name, ins, fx); inited != "" && inited != fresh {
			return "GOChanged"
		}
	}
	// ... and directly after a REJECTED gate call on another operator (what one call leaves behind -- a
	// recycled lookup table, say -- may not widen the next)
	for _, pol := range [][2]interface{}{{"Relu", tensor.Int32}, {"Not", tensor.Float32}, {"Gather", tensor.Float64}, {"Cast", tensor.Bool}} {
		func() {
			defer func() { recover() }()
			if o, err := opset13.GetOperator(pol[0].(string)); err == nil {
				d := pol[1].(tensor.Dtype)
				bad := []tensor.Tensor{tensor.New(tensor.Of(d), tensor.WithShape(1)), tensor.New(tensor.Of(d), tensor.WithShape(1))}
				if pol[0] != "Gather" {
					bad = bad[:1]
				}
				o.ValidateInputs(bad)
			}
		}()
		if after := gateOnce(name, ins, 0, false); after != fresh {
			return "GOChanged"
		}
	}
	// the gate looks at presence and element type only: the same list with every tensor replaced by a
	// tensor of the same element type and another shape (zero-size ones included) must be judged alike
	for _, shp := range [][]int{{}, {0}, {2, 0}, {1, 1, 1, 1, 1, 2}} {
		alt := make([]tensor.Tensor, len(ins))
		ok := true
		for i, t := range ins {
			if t == nil {
				continue
			}
			func() {
				defer func() {
					if r := recover(); r != nil {
						ok = false
					}
				}()
				if len(shp) == 0 { // a rank-0 tensor of that element type
					alt[i] = tensor.New(tensor.FromScalar(reflect.Zero(t.Dtype().Type).Interface()))
					return
				}
				alt[i] = tensor.New(tensor.Of(t.Dtype()), tensor.WithShape(shp...))
			}()
		}
		if ok {
			if other := gateOnce(name, alt, 0, false); other != fresh {
				return "GOChanged"
			}
		}
	}
	// a validated list the caller still HOLDS stays what it was while other nodes are validated (each call
	// hands out a list of its own: a Run may keep one node's inputs while it prepares the next node)
	if strings.HasPrefix(fresh, "(GOOkLen") {
		if held := gateHeld(name, ins); held != "" {
			return "GOChanged"
		}
	}
	// a refusal for an element type is final: the same call repeated 600 times -- on one instance and on fresh
	// ones -- is refused every time in the same way (one case in three; nothing counts calls)
	if strings.HasPrefix(fresh, "(GOErrType") {
		persistCounter++
		if persistCounter%3 == 0 {
			func() {
				defer func() { recover() }()
				same, _ := opset13.GetOperator(name)
				for k := 0; k < 600; k++ {
					op := same
					if k%2 == 1 {
						op, _ = opset13.GetOperator(name)
					}
					if got := classifyGate(op, ins); got != fresh {
						fresh = "GOChanged"
						return
					}
				}
			}()
		}
	}
	return fresh
}

var persistCounter = 0

// gateHeld: the list returned for this call is kept, two other nodes whose lists need padding (Gemm without
// its optional C, Slice without axes and steps) are validated, and the kept list is looked at again
func gateHeld(name string, ins []tensor.Tensor) (bad string) {
	defer func() {
		if r := recover(); r != nil {
			bad = "panic"
		}
	}()
	op, err := opset13.GetOperator(name)
	if err != nil {
		return ""
	}
	buf := make([]tensor.Tensor, len(ins))
	copy(buf, ins)
	res, err := op.ValidateInputs(buf)
	if err != nil {
		return ""
	}
	kept := append([]tensor.Tensor{}, res...)
	f := func() tensor.Tensor { return tensor.New(tensor.WithShape(1, 1), tensor.WithBacking([]float32{5})) }
	i := func() tensor.Tensor { return tensor.New(tensor.WithShape(1), tensor.WithBacking([]int64{0})) }
	for _, other := range []struct {
		op  string
		ins []tensor.Tensor
	}{{"Gemm", []tensor.Tensor{f(), f()}}, {"Slice", []tensor.Tensor{f(), i(), i()}}, {"LSTM", []tensor.Tensor{f(), f(), f()}}} {
		func() {
			defer func() { recover() }()
			if o, err := opset13.GetOperator(other.op); err == nil {
				o.ValidateInputs(other.ins)
			}
		}()
	}
	if len(res) != len(kept) {
		return "changed"
	}
	for k := range res {
		if res[k] != kept[k] {
			return "changed"
		}
	}
	return ""
}

var gateFixtures = fixtures()

// like gateOnce on an instance whose Init ran with a fixture's attributes; "" when Init refuses them
func gateOnceInit(name string, ins []tensor.Tensor, fx fixture) (out string) {
	defer func() {
		if r := recover(); r != nil {
			out = "GOPanic"
		}
	}()
	op, err := opset13.GetOperator(name)
	if err != nil {
		return ""
	}
	if err := op.Init(&onnx.NodeProto{Attribute: fx.attrs, Output: append([]string{}, fx.outputs...)}); err != nil {
		return ""
	}
	return classifyGate(op, ins)
}

func classifyGate(op ops.Operator, ins []tensor.Tensor) string {
	given := append([]tensor.Tensor{}, ins...)
	buf := make([]tensor.Tensor, len(ins))
	copy(buf, ins)
	res, err := op.ValidateInputs(buf)
	if err != nil {
		var ie *ops.InputError
		if errors.As(err, &ie) {
			msg := err.Error()
			if strings.Contains(msg, "does not allow dtype") {
				var p int
				fmt.Sscanf(msg, "input %d", &p)
				return fmt.Sprintf("(GOErrType %d)", p)
			}
			if strings.Contains(msg, "input tensors, got") {
				return "GOErrCount"
			}
		}
		return "GOErrOther"
	}
	if len(res) < len(given) {
		return "GOChanged"
	}
	for i, t := range given {
		if res[i] != t {
			return "GOChanged"
		}
	}
	for i := len(given); i < len(res); i++ {
		if res[i] != nil {
			return "GOChanged"
		}
	}
	return fmt.Sprintf("(GOOkLen %d)", len(res))
}

func gateOnce(name string, ins []tensor.Tensor, longerFirst int, nilSlice bool) (out string) {
	defer func() {
		if r := recover(); r != nil {
			out = "GOPanic"
		}
	}()
	op, err := opset13.GetOperator(name)
	if err != nil {
		return "GOPanic"
	}
	for k := longerFirst; k > 0; k-- {
		func() {
			defer func() { recover() }()
			longer := append([]tensor.Tensor{}, ins...)
			for i := 0; i < k; i++ {
				longer = append(longer, tensor.New(tensor.WithShape(1), tensor.WithBacking([]float32{3})))
			}
			op.ValidateInputs(longer)
		}()
	}
	given := append([]tensor.Tensor{}, ins...)
	// the caller's slice has spare capacity that still holds tensors of an earlier call: the gate must
	// present the omitted optional inputs as absent, not whatever lies behind the slice's length
	buf := make([]tensor.Tensor, len(ins), len(ins)+4)
	copy(buf, ins)
	for i := len(ins); i < cap(buf); i++ {
		buf[:cap(buf)][i] = tensor.New(tensor.WithShape(1), tensor.WithBacking([]float32{7}))
	}
	if nilSlice {
		buf = nil
	}
	res, err := op.ValidateInputs(buf)
	if err != nil {
		var ie *ops.InputError
		if errors.As(err, &ie) {
			msg := err.Error()
			if strings.Contains(msg, "does not allow dtype") {
				var p int
				fmt.Sscanf(msg, "input %d", &p)
				return fmt.Sprintf("(GOErrType %d)", p)
			}
			if strings.Contains(msg, "input tensors, got") {
				return "GOErrCount"
			}
		}
		return "GOErrOther"
	}
	// supplied tensors passed through unchanged and in order, the rest absent
	if len(res) < len(given) {
		return "GOChanged"
	}
	for i, t := range given {
		if res[i] != t {
			return "GOChanged"
		}
	}
	for i := len(given); i < len(res); i++ {
		if res[i] != nil {
			return "GOChanged"
		}
	}
	return fmt.Sprintf("(GOOkLen %d)", len(res))
}

func genC15(dir, tier string, seed int64) {
	t := opTable()
	hdr := "From Coq Require Import List String ZArith.\nFrom V Require Import DType Gate CheckC15.\nFrom Gen Require Import OpTable.\nImport ListNotations.\nOpen Scope string_scope.\nDefinition cases : list gcase := ["
	ftr := "].\nDefinition verdicts := Eval vm_compute in map (verdict optable13) cases.\nPrint verdicts.\nDefinition kinds := Eval vm_compute in map (kind optable13) cases.\nPrint kinds."
	cw := newCaseWriter(dir, "C15_gate", hdr, ftr,
		"exhaustive: every registered operator x every input count 0..max+2 x (an accepted dtype everywhere; each of the 14 dtypes at each position, one at a time; nil at each optional position, alone, together with nil at a later one, and together with each of the 14 dtypes at each later position; for 2-input operators all 14x14 dtype pairs; for the variadic operator counts 0..5 and 31..33, 63..66, 127..129, 200)", true, 1500)
	emit := func(name string, ins []int) { // ins: dtype index or -1 for nil
		ts := make([]tensor.Tensor, len(ins))
		var parts []string
		for i, d := range ins {
			if d >= 0 {
				ts[i] = mk(dtypes[d])
				parts = append(parts, "Some "+dtNames[d])
			} else {
				parts = append(parts, "None")
			}
		}
		o := gateCall(name, ts)
		cw.write(fmt.Sprintf("  (\"%s\", [%s], %s)", name, strings.Join(parts, ";"), o))
		count("operator", name)
		count("input_count", fmt.Sprint(len(ins)))
		count("observed", strings.Fields(strings.Trim(o, "()"))[0])
	}
	for _, in := range t {
		okAt := func(i int) int {
			if i < len(in.cons) && len(in.cons[i]) > 0 && in.cons[i][0] >= 0 {
				return in.cons[i][0]
			}
			return 8
		}
		maxCnt := in.max + 2
		if in.dynamic {
			maxCnt = 5
		}
		cnts := []int{}
		for cnt := 0; cnt <= maxCnt; cnt++ {
			cnts = append(cnts, cnt)
		}
		if in.dynamic {
			cnts = append(cnts, 31, 32, 33, 63, 64, 65, 66, 127, 128, 129, 200) // around powers of two: fixed-size tables
		}
		for _, cnt := range cnts {
			if in.dynamic && cnt > 5 { // large counts: only the all-accepted list and one foreign dtype at the ends
				base := make([]int, cnt)
				for i := range base {
					base[i] = okAt(i)
				}
				emit(in.name, base)
				for _, pos := range []int{0, cnt - 1} {
					c := append([]int{}, base...)
					c[pos] = 12 // String
					emit(in.name, c)
				}
				continue
			}
			base := make([]int, cnt)
			for i := range base {
				base[i] = okAt(i)
			}
			emit(in.name, base)
			for pos := 0; pos < cnt; pos++ {
				for d := range dtypes {
					c := append([]int{}, base...)
					c[pos] = d
					emit(in.name, c)
				}
				if pos >= in.min && !in.dynamic { // nil at every optional position
					c := append([]int{}, base...)
					c[pos] = -1
					emit(in.name, c)
					// and nil at this one together with each later optional one
					for q := pos + 1; q < cnt; q++ {
						c2 := append([]int{}, c...)
						c2[q] = -1
						emit(in.name, c2)
						// nil at this position and every dtype at each later one: the type check must
						// not stop at the first absent input
						for d := range dtypes {
							c3 := append([]int{}, c...)
							c3[q] = d
							emit(in.name, c3)
						}
					}
				}
			}
			if cnt == 2 && in.max == 2 && !in.dynamic {
				for a := range dtypes {
					for b := range dtypes {
						emit(in.name, []int{a, b})
					}
				}
			}
		}
	}
	cw.close()

	// registry stream: every listed name, perturbations of it, names of ONNX operators that are
	// not implemented, odd strings
	hdr = "From Coq Require Import List String ZArith.\nFrom V Require Import DType Gate CheckC15.\nFrom Gen Require Import OpTable.\nImport ListNotations.\nOpen Scope string_scope.\nDefinition cases : list rcase := ["
	ftr = "].\nDefinition verdicts := Eval vm_compute in map (rverdict optable13) cases.\nPrint verdicts.\nDefinition kinds := Eval vm_compute in map (fun c => if lookup_name (map o_name optable13) (fst c) then 1%Z else 2%Z) cases.\nPrint kinds."
	rw := newCaseWriter(dir, "C15_registry", hdr, ftr,
		"every name of GetOpNames, case/affix perturbations of each, 60 ONNX operator names outside the implemented set, odd strings", true, 1500)
	seen := map[string]bool{}
	probe := func(n string) {
		if seen[n] || strings.ContainsAny(n, "\"\n\\") {
			return
		}
		seen[n] = true
		o := func() (out string) {
			defer func() {
				if r := recover(); r != nil {
					out = "ROPanic"
				}
			}()
			op, err := opset13.GetOperator(n)
			if err != nil {
				if errors.Is(err, ops.ErrUnsupportedOperator) {
					return "ROUnsupportedOp"
				}
				return "ROOtherErr"
			}
			if op == nil {
				return "RONil"
			}
			return "ROResolved"
		}()
		rw.write(fmt.Sprintf("  (\"%s\", %s)", n, o))
		count("registry_observed", o)
	}
	for _, in := range t {
		probe(in.name)
		probe(strings.ToLower(in.name))
		probe(strings.ToUpper(in.name))
		probe(in.name + " ")
		probe(" " + in.name)
		probe(in.name + "1")
		probe(in.name[:len(in.name)-1])
		probe("ai.onnx." + in.name)
		probe("." + in.name)
		probe(in.name + ".")
		probe(in.name + "." + in.name)
		probe("com.acme." + in.name)
		probe(in.name + ":0")
		probe("x/" + in.name)
		probe(in.name + "_13")
		probe(in.name + in.name)
		probe("\u00a0" + in.name)
	}
	for _, n := range []string{"", "Pad", "Gelu", "MaxPool", "AveragePool", "BatchNormalization", "Dropout", "Identity", "Clip", "Exp", "Log", "Sqrt", "Pow", "Neg", "Floor", "Ceil", "Round", "Sum", "Mean", "Max", "Min", "ReduceSum", "ReduceMean", "ReduceProd", "ReduceL1", "ReduceL2", "ArgMin", "Where", "Tile", "Split", "Resize", "Upsample", "TopK", "Range", "OneHot", "NonZero", "LeakyRelu", "Elu", "Selu", "Softplus", "Softsign", "HardSigmoid", "InstanceNormalization", "LRN", "GlobalAveragePool", "GlobalMaxPool", "ConvTranspose", "DepthToSpace", "SpaceToDepth", "ScatterND", "GatherND", "GatherElements", "Einsum", "CumSum", "Erf", "Sign", "IsNaN", "IsInf", "Mod", "BitShift", "If", "Loop", "Scan", "QuantizeLinear", "op", "Operator", "nil", "13"} {
		probe(n)
	}
	rw.close()

	// freshness: two successive lookups of a name must not return one shared instance
	g := goOnlyResult{Stream: "C15_fresh", Rule: "for every registered name: two successive GetOperator calls return distinct instances (or a zero-size, stateless type)", Violations: []string{}}
	for _, in := range t {
		g.N++
		if !in.fresh {
			g.Violations = append(g.Violations, fmt.Sprintf("GetOperator(%q) returned the same instance twice: attribute state set by one node's Init is seen by every other node of that type", in.name))
		}
	}
	meta.GoOnly = append(meta.GoOnly, g)

	// behavioural independence: what an instance computes must not depend on any other lookup of
	// its name -- neither one made (and initialised with other attributes, and applied) BEFORE it
	// was looked up, nor one made in between its own lookup and its Init
	ind := goOnlyResult{Stream: "C15_instance_independence", Rule: "for every operator with valid fixtures and every ordered pair (polluter fixture f', fixture f) of that operator (attribute variants: explicit activations, other kernel/axis attributes ...): result of a fresh instance on f  ==  result of an instance looked up BEFORE another instance was Init-ed with f' and applied  ==  result of an instance looked up AFTER that", Violations: []string{}}
	fxs := fixtures()
	for _, in := range t {
		fs := append([]fixture{}, fxs[in.name]...)
		fs = append(fs, pollutingVariants(in.name)...)
		for _, f := range fxs[in.name] {
			base := observeWithOutputs(in.name, f.attrs, f.outputs, f.inputs())
			for _, fp := range fs {
				ind.N++
				early, err := opset13.GetOperator(in.name)
				if err != nil {
					continue
				}
				observeWithOutputs(in.name, fp.attrs, fp.outputs, fp.inputs()) // another node of the same type runs
				late, _ := opset13.GetOperator(in.name)
				for which, o := range map[string]ops.Operator{"before": early, "after": late} {
					got := observeOn(o, f.attrs, f.outputs, f.inputs())
					if got != base && len(ind.Violations) < 12 {
						ind.Violations = append(ind.Violations, fmt.Sprintf("%s: an instance looked up %s another %s node (attributes %v) was initialised and applied computes %.200s, a fresh one %.200s", in.name, which, in.name, attrNames(fp.attrs), got, base))
					}
				}
			}
		}
	}
	meta.GoOnly = append(meta.GoOnly, ind)
}

func attrNames(as []*onnx.AttributeProto) []string {
	var n []string
	for _, a := range as {
		n = append(n, a.Name)
	}
	return n
}

// extra attribute variants used only as "the other node of the same type"
func pollutingVariants(op string) []fixture {
	fx := fixtures()[op]
	if len(fx) == 0 {
		return nil
	}
	strs := func(n string, v ...string) *onnx.AttributeProto {
		var b [][]byte
		for _, s := range v {
			b = append(b, []byte(s))
		}
		return &onnx.AttributeProto{Name: n, Strings: b, Type: onnx.AttributeProto_STRINGS}
	}
	with := func(a ...*onnx.AttributeProto) fixture {
		f := fx[0]
		f.attrs = append(append([]*onnx.AttributeProto{}, fx[0].attrs...), a...)
		return f
	}
	switch op {
	case "RNN":
		return []fixture{with(strs("activations", "Relu")), with(strs("activations", "Sigmoid"))}
	case "GRU":
		return []fixture{with(strs("activations", "Relu", "Sigmoid")), with(strs("activations", "Tanh", "Relu")), with(aI("linear_before_reset", 1))}
	case "LSTM":
		return []fixture{with(strs("activations", "Relu", "Sigmoid", "Relu")), with(strs("activations", "Tanh", "Relu", "Sigmoid"))}
	}
	return nil
}

func observeOn(o ops.Operator, attrs []*onnx.AttributeProto, outputs []string, ins []tensor.Tensor) (obs string) {
	defer func() {
		if r := recover(); r != nil {
			obs = "OPanic"
		}
	}()
	if err := o.Init(&onnx.NodeProto{Attribute: attrs, Output: outputs}); err != nil {
		return "(OErr " + ekind(err) + ")"
	}
	v, err := o.ValidateInputs(ins)
	if err != nil {
		return "(OErr " + ekind(err) + ")"
	}
	out, err := o.Apply(v)
	if err != nil {
		return "(OErr " + ekind(err) + ")"
	}
	parts := make([]string, len(out))
	for i, t := range out {
		parts[i] = tval(t)
	}
	return "(OOk [" + strings.Join(parts, ";") + "])"
}
