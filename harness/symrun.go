package main

import (
	"fmt"
	"math/big"
	"strings"

	"github.com/advancedclimatesystems/gonnx"
	"github.com/advancedclimatesystems/gonnx/onnx"
	"github.com/advancedclimatesystems/gonnx/ops"
	"google.golang.org/protobuf/proto"
	"gorgonia.org/tensor"
)

// Symbolic operators for the Run streams (C01, C13, C18): outputs are hashes of
// (operator id, attribute, input values, output index); Model.GetOperator is an exported field.

var bigP = big.NewInt(1000003)
var bigM = new(big.Int).Sub(new(big.Int).Lsh(big.NewInt(1), 61), big.NewInt(1))

func mix(h, x int64) int64 {
	r := new(big.Int).Mul(big.NewInt(h), bigP)
	r.Add(r, big.NewInt(x))
	r.Mod(r, bigM)
	return r.Int64()
}

type symOp struct {
	id, attr int64
	nout     int
	fail     bool
	failGate bool
}

func (s *symOp) String() string { return fmt.Sprintf("sym%d", s.id) }
func (s *symOp) Init(n *onnx.NodeProto) error {
	for _, a := range n.GetAttribute() {
		switch a.GetName() {
		case "attr":
			s.attr = a.GetI()
		case "nout":
			s.nout = int(a.GetI())
		case "fail":
			s.fail = a.GetI() == 1
			s.failGate = a.GetI() == 3
			if a.GetI() == 2 {
				return fmt.Errorf("symbolic failure in Init") // a node the operator's Init refuses
			}
		}
	}
	return nil
}
func (s *symOp) Apply(in []tensor.Tensor) ([]tensor.Tensor, error) {
	if s.fail {
		return nil, fmt.Errorf("symbolic failure")
	}
	h := mix(mix(17, s.id), s.attr)
	for _, t := range in {
		if t == nil {
			h = mix(h, 7)
		} else {
			switch d := t.Data().(type) {
			case []int64:
				h = mix(h, d[0])
			case int64:
				h = mix(h, d)
			default:
				return nil, fmt.Errorf("symbolic operator: unexpected tensor data %T", d)
			}
		}
	}
	out := make([]tensor.Tensor, s.nout)
	for k := range out {
		out[k] = tensor.New(tensor.WithShape(1), tensor.WithBacking([]int64{mix(h, int64(k))}))
	}
	return out, nil
}
func (s *symOp) GetMinInputs() int                         { return 0 }
func (s *symOp) GetMaxInputs() int                         { return 16 }
func (s *symOp) GetInputTypeConstraints() [][]tensor.Dtype { return nil }
func (s *symOp) ValidateInputs(in []tensor.Tensor) ([]tensor.Tensor, error) {
	if s.failGate {
		return nil, fmt.Errorf("symbolic failure in ValidateInputs")
	}
	return in, nil
}

func symGetter(opType string) (ops.Operator, error) {
	var id int64
	if _, err := fmt.Sscanf(opType, "Sym%d", &id); err != nil || id >= 1000 {
		return nil, ops.ErrUnknownOperatorType(opType)
	}
	return &symOp{id: id}, nil
}

// ---- a symbolic graph case ----
type sdim struct {
	kind  string // "fixed" "param" "none"
	value int64
	name  string
}
type sinput struct {
	name    string
	dims    []sdim
	noShape bool // value info without type/shape
}
type snode struct {
	op, attr int64
	nout     int
	fail     bool
	in, out  []string
}
type stens struct {
	shape []int
	val   int64
}
type sgraphCase struct {
	// warm: a feed that is run once on the same Model before the observed call (history must not matter)
	warm map[string]stens
	inputs   []sinput
	inits    []string
	initVals map[string]stens
	outputs  []string
	nodes    []snode
	feedOrd  []string
	feed     map[string]stens
	opset    int64
}

func qs(xs []string) string {
	ss := make([]string, len(xs))
	for i, x := range xs {
		ss[i] = "\"" + x + "\""
	}
	return "[" + strings.Join(ss, ";") + "]"
}
func stensG(t stens) string {
	return fmt.Sprintf("{| s_shape := %s; s_val := %d |}", nats(t.shape), t.val)
}

func (c *sgraphCase) proto() *onnx.ModelProto {
	vi := func(in sinput) *onnx.ValueInfoProto {
		if in.noShape {
			return &onnx.ValueInfoProto{Name: in.name}
		}
		var dims []*onnx.TensorShapeProto_Dimension
		for _, d := range in.dims {
			switch d.kind {
			case "fixed":
				dims = append(dims, &onnx.TensorShapeProto_Dimension{Value: &onnx.TensorShapeProto_Dimension_DimValue{DimValue: d.value}})
			case "param":
				dims = append(dims, &onnx.TensorShapeProto_Dimension{Value: &onnx.TensorShapeProto_Dimension_DimParam{DimParam: d.name}})
			default:
				dims = append(dims, &onnx.TensorShapeProto_Dimension{})
			}
		}
		return &onnx.ValueInfoProto{Name: in.name, Type: &onnx.TypeProto{Value: &onnx.TypeProto_TensorType{TensorType: &onnx.TypeProto_Tensor{ElemType: 7,
			Shape: &onnx.TensorShapeProto{Dim: dims}}}}}
	}
	g := &onnx.GraphProto{}
	for _, in := range c.inputs {
		g.Input = append(g.Input, vi(in))
	}
	for _, n := range c.outputs {
		g.Output = append(g.Output, &onnx.ValueInfoProto{Name: n})
	}
	for _, n := range c.inits {
		t := c.initVals[n]
		dims := make([]int64, len(t.shape))
		vals := make([]int64, numel(t.shape))
		for i, d := range t.shape {
			dims[i] = int64(d)
		}
		for i := range vals {
			vals[i] = t.val
		}
		g.Initializer = append(g.Initializer, &onnx.TensorProto{Name: n, DataType: 7, Dims: dims, Int64Data: vals})
	}
	for ni, n := range c.nodes {
		fl := int64(0)
		if n.fail {
			fl = 1 + int64(ni+len(c.nodes))%3 // the failure is raised by Apply, by Init or by ValidateInputs
		}
		// two nodes in three carry a name (unique, or the same for all): a name may not matter
		name := []string{"", fmt.Sprintf("node_%d", ni), "n"}[(ni+len(c.inputs))%3]
		g.Node = append(g.Node, &onnx.NodeProto{Name: name, OpType: fmt.Sprintf("Sym%d", n.op), Input: n.in, Output: n.out, Attribute: []*onnx.AttributeProto{
			{Name: "attr", I: n.attr, Type: onnx.AttributeProto_INT}, {Name: "nout", I: int64(n.nout), Type: onnx.AttributeProto_INT}, {Name: "fail", I: fl, Type: onnx.AttributeProto_INT}}})
	}
	return &onnx.ModelProto{OpsetImport: opsetSpelling(c.opset, len(c.nodes)+len(c.inputs)), Graph: g}
}

// opsetSpelling: import lists that all select the given version of the default operator set: the
// default domain spelled "" or "ai.onnx", alone or beside the import of another domain (whose lower
// version does not matter), in either order
func opsetSpelling(v int64, k int) []*onnx.OperatorSetIdProto {
	switch k % 5 {
	case 1:
		return []*onnx.OperatorSetIdProto{{Domain: "ai.onnx", Version: v}}
	case 2:
		return []*onnx.OperatorSetIdProto{{Domain: "ai.onnx.ml", Version: 2}, {Domain: "", Version: v}}
	case 3:
		return []*onnx.OperatorSetIdProto{{Domain: "ai.onnx", Version: v}, {Domain: "ai.onnx.ml", Version: 3}}
	}
	return []*onnx.OperatorSetIdProto{{Version: v}}
}

func mkSym(t stens) tensor.Tensor {
	vals := make([]int64, numel(t.shape))
	for i := range vals {
		vals[i] = t.val
	}
	if len(t.shape) == 0 {
		return tensor.New(tensor.FromScalar(t.val))
	}
	return tensor.New(tensor.WithShape(t.shape...), tensor.WithBacking(vals))
}

// run the case: marshal, NewModelFromBytes, install the symbolic getter, Run; observed outcome as Gallina
func (c *sgraphCase) observe() (o string) {
	defer func() {
		if rec := recover(); rec != nil {
			o = "RPanicked"
		}
	}()
	bts, err := proto.Marshal(c.proto())
	if err != nil {
		panic(err)
	}
	m, err := gonnx.NewModelFromBytes(bts)
	if err != nil {
		return "(RError " + ekind(err) + ")"
	}
	m.GetOperator = symGetter
	// what the introspection methods hand out belongs to the caller: editing it may not change what Run enforces
	func() {
		defer func() { recover() }()
		shapes := m.InputShapes()
		for n, sh := range shapes {
			for i := range sh {
				sh[i] = onnx.Dim{IsDynamic: false, Size: 977}
			}
			delete(shapes, n)
		}
		names := m.InputNames()
		for i := range names {
			names[i] = "scrambled"
		}
	}()
	in := gonnx.Tensors{}
	for n, v := range c.feed {
		in[n] = mkSym(v)
	}
	if c.warm != nil {
		w := gonnx.Tensors{}
		for n, v := range c.warm {
			w[n] = mkSym(v)
		}
		func() {
			defer func() { recover() }()
			m.Run(w)
		}()
	}
	out, err := m.Run(in)
	if err != nil {
		return "(RError " + ekind(err) + ")"
	}
	var ss []string
	for _, n := range c.outputs {
		t, ok := out[n]
		if !ok || t == nil {
			ss = append(ss, fmt.Sprintf("(\"%s\", None)", n))
		} else {
			var v int64
			switch d := t.Data().(type) {
			case []int64:
				v = d[0]
			case int64:
				v = d
			}
			ss = append(ss, fmt.Sprintf("(\"%s\", Some %s)", n, stensG(stens{shape: []int(t.Shape()), val: v})))
		}
	}
	if len(out) != len(uniq(c.outputs)) {
		ss = append(ss, "(\"<extra-keys-in-result>\", None)")
	}
	return "(ROutputs [" + strings.Join(ss, ";") + "])"
}

func uniq(xs []string) []string {
	seen := map[string]bool{}
	var out []string
	for _, x := range xs {
		if !seen[x] {
			seen[x] = true
			out = append(out, x)
		}
	}
	return out
}

func (c *sgraphCase) gallina(obs string) string {
	var ins []string
	for _, in := range c.inputs {
		if in.noShape || len(in.dims) == 0 { // no shape entry is created for a value info without dims (rank 0 included)
			ins = append(ins, fmt.Sprintf("(\"%s\", None)", in.name))
			continue
		}
		var ds []string
		for _, d := range in.dims {
			if d.kind == "fixed" && d.value != 0 {
				ds = append(ds, fmt.Sprintf("DFixed %s", zlit(d.value)))
			} else {
				ds = append(ds, "DDyn")
			}
		}
		ins = append(ins, fmt.Sprintf("(\"%s\", Some [%s])", in.name, strings.Join(ds, ";")))
	}
	var ps []string
	for _, n := range c.inits {
		ps = append(ps, fmt.Sprintf("(\"%s\", %s)", n, stensG(c.initVals[n])))
	}
	var ns []string
	for _, n := range c.nodes {
		ns = append(ns, fmt.Sprintf("{| n_op := \"Sym%d\"; n_attrs := {| sa_attr := %d; sa_nout := %d%%nat; sa_fail := %v |}; n_in := %s; n_out := %s |}", n.op, n.attr, n.nout, n.fail, qs(n.in), qs(n.out)))
	}
	var fs []string
	for _, n := range c.feedOrd {
		fs = append(fs, fmt.Sprintf("(\"%s\", %s)", n, stensG(c.feed[n])))
	}
	return fmt.Sprintf("  {| sc_graph := {| g_inputs := [%s]; g_params := [%s]; g_outputs := %s; g_nodes := [%s] |}; sc_feed := [%s]; sc_obs := %s |}",
		strings.Join(ins, ";"), strings.Join(ps, ";"), qs(c.outputs), strings.Join(ns, ";"), strings.Join(fs, ";"), obs)
}

const symHeader = "From Coq Require Import List String ZArith.\nFrom V Require Import Case Run CheckC01.\nImport ListNotations.\nOpen Scope string_scope.\nOpen Scope Z_scope.\nDefinition cases : list scase := ["
