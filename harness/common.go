// Package main is the correspondence harness: it is rebuilt against /repo's working tree on
// every run, executes generated cases on the implementation under recover(), and writes the
// inputs together with the observed outcomes as Gallina literals for the Coq side to judge.
package main

import (
	"bufio"
	"encoding/json"
	"fmt"
	"math"
	"os"
	"path/filepath"
	"strconv"
	"strings"

	"gorgonia.org/tensor"
)

var dtypes = []tensor.Dtype{
	tensor.Uint8, tensor.Uint16, tensor.Uint32, tensor.Uint64,
	tensor.Int8, tensor.Int16, tensor.Int32, tensor.Int64,
	tensor.Float32, tensor.Float64, tensor.Complex64, tensor.Complex128, tensor.String, tensor.Bool,
}
var dtNames = []string{"Uint8", "Uint16", "Uint32", "Uint64", "Int8", "Int16", "Int32", "Int64", "Float32", "Float64", "Complex64", "Complex128", "DString", "DBool"}

func dtIndex(d tensor.Dtype) int {
	for i, x := range dtypes {
		if x == d {
			return i
		}
	}
	return -1
}

// ---- printing Gallina literals ----
func zlit(x int64) string {
	if x < 0 {
		return fmt.Sprintf("(%d)", x)
	}
	return fmt.Sprint(x)
}
func zs(xs []int64) string {
	ss := make([]string, len(xs))
	for i, x := range xs {
		ss[i] = zlit(x)
	}
	return "[" + strings.Join(ss, ";") + "]"
}
func nats(xs []int) string {
	ss := make([]string, len(xs))
	for i, x := range xs {
		ss[i] = fmt.Sprint(x)
	}
	return "[" + strings.Join(ss, ";") + "]%nat"
}

// exactNaN: print NaN payloads bit for bit (C12) instead of the canonical quiet NaN
var exactNaN = false

// payloadAsIntegers: float payloads are printed as the integers they hold (integer-valued test
// data: float arithmetic is then exact and the ring models are compared exactly)
var payloadAsIntegers = false

const qnan32 = "2143289344"
const qnan64 = "9221120237041090560"

// payload of a tensor as decimal integers: ints by value, bool 0/1, floats as IEEE bit patterns
// with every NaN mapped to the canonical quiet NaN (the Coq side does the same)
func payload(t tensor.Tensor) []string {
	var out []string
	add := func(format string, v interface{}) { out = append(out, fmt.Sprintf(format, v)) }
	f32 := func(x float32) {
		if payloadAsIntegers {
			add("%d", int64(x))
			return
		}
		if x != x && !exactNaN {
			out = append(out, qnan32)
		} else {
			add("%d", math.Float32bits(x))
		}
	}
	f64 := func(x float64) {
		if payloadAsIntegers {
			add("%d", int64(x))
			return
		}
		if x != x && !exactNaN {
			out = append(out, qnan64)
		} else {
			add("%d", math.Float64bits(x))
		}
	}
	b2i := func(x bool) {
		if x {
			out = append(out, "1")
		} else {
			out = append(out, "0")
		}
	}
	switch d := t.Data().(type) {
	case []int64:
		for _, x := range d {
			add("%d", x)
		}
	case int64:
		add("%d", d)
	case []int32:
		for _, x := range d {
			add("%d", x)
		}
	case int32:
		add("%d", d)
	case []int16:
		for _, x := range d {
			add("%d", x)
		}
	case int16:
		add("%d", d)
	case []int8:
		for _, x := range d {
			add("%d", x)
		}
	case int8:
		add("%d", d)
	case []int:
		for _, x := range d {
			add("%d", x)
		}
	case int:
		add("%d", d)
	case []uint64:
		for _, x := range d {
			add("%d", x)
		}
	case uint64:
		add("%d", d)
	case []uint32:
		for _, x := range d {
			add("%d", x)
		}
	case uint32:
		add("%d", d)
	case []uint16:
		for _, x := range d {
			add("%d", x)
		}
	case uint16:
		add("%d", d)
	case []uint8:
		for _, x := range d {
			add("%d", x)
		}
	case uint8:
		add("%d", d)
	case []float32:
		for _, x := range d {
			f32(x)
		}
	case float32:
		f32(d)
	case []float64:
		for _, x := range d {
			f64(x)
		}
	case float64:
		f64(d)
	case []bool:
		for _, x := range d {
			b2i(x)
		}
	case bool:
		b2i(d)
	case []string: // strings and complex numbers only ever move: they carry an integer token
		for _, x := range d {
			n, _ := strconv.ParseInt(x, 10, 64)
			add("%d", n)
		}
	case string:
		n, _ := strconv.ParseInt(d, 10, 64)
		add("%d", n)
	case []complex64:
		for _, x := range d {
			add("%d", int64(real(x)))
		}
	case complex64:
		add("%d", int64(real(d)))
	case []complex128:
		for _, x := range d {
			add("%d", int64(real(x)))
		}
	case complex128:
		add("%d", int64(real(d)))
	default:
		panic(fmt.Sprintf("payload: unsupported %T", d))
	}
	for i, x := range out {
		if strings.HasPrefix(x, "-") {
			out[i] = "(" + x + ")"
		}
	}
	return out
}

// denseData returns the elements of t in row-major order of its *logical* shape
// (views and transposed tensors are materialised first).
func materialize(t tensor.Tensor) tensor.Tensor {
	if d, ok := t.(*tensor.Dense); ok {
		if d.RequiresIterator() || d.IsMaterializable() {
			return d.Materialize()
		}
	}
	return t
}

func tval(t tensor.Tensor) string {
	if t == nil {
		return "None"
	}
	return "Some " + tvalBare(t)
}
func tvalBare(t tensor.Tensor) string {
	m := materialize(t)
	shape := []int(m.Shape())
	idx := dtIndex(m.Dtype())
	if idx < 0 {
		// a dtype outside the 14 (gorgonia's Int): print as Int64 with a marker shape that cannot match
		return fmt.Sprintf("{| dt := DString; sh := %s; pl := [%s] |}", nats(shape), strings.Join(payload(m), ";"))
	}
	return fmt.Sprintf("{| dt := %s; sh := %s; pl := [%s] |}", dtNames[idx], nats(shape), strings.Join(payload(m), ";"))
}

// ---- sharded case files ----
type shardInfo struct {
	File      string `json:"file"`
	N         int    `json:"n"`
	FirstLine int    `json:"first_line"` // 1-based line of the first case
}
type streamInfo struct {
	Name       string      `json:"name"`
	Rule       string      `json:"rule"`
	Exhaustive bool        `json:"exhaustive"`
	Shards     []shardInfo `json:"shards"`
	N          int         `json:"n"`
}
type metaInfo struct {
	Prop         string                    `json:"prop"`
	Tier         string                    `json:"tier"`
	Seed         int64                     `json:"seed"`
	Streams      []*streamInfo             `json:"streams"`
	Distribution map[string]map[string]int `json:"distribution"`
	Samples      []string                  `json:"samples"`
	Notes        []string                  `json:"notes"`
	GoOnly       []goOnlyResult            `json:"go_only"`
}

// a check the harness decides by itself (metamorphic Go-vs-Go streams)
type goOnlyResult struct {
	Stream     string         `json:"stream"`
	N          int            `json:"n"`
	Violations []string       `json:"violations"` // one description per failing case
	Known      map[string]int `json:"known"`
	Rule       string         `json:"rule"`
	// Distinct: how many of the N cases are distinct, non-trivial inputs (0 = not counted)
	Distinct int `json:"distinct"`
}

var meta = &metaInfo{Distribution: map[string]map[string]int{}}

func count(dim, key string) {
	if meta.Distribution[dim] == nil {
		meta.Distribution[dim] = map[string]int{}
	}
	meta.Distribution[dim][key]++
}

type caseWriter struct {
	dir, stream, header, footer string
	shardSize                   int
	f                           *os.File
	w                           *bufio.Writer
	n, inShard                  int
	first                       bool
	info                        *streamInfo
	dry                         bool
}

// dryCases: the generators are run for their side observations only (effect snapshots, instance
// reuse): no case file is written and no stream is registered
var dryCases = false

func newCaseWriter(dir, stream, header, footer, rule string, exhaustive bool, shardSize int) *caseWriter {
	si := &streamInfo{Name: stream, Rule: rule, Exhaustive: exhaustive}
	if dryCases {
		return &caseWriter{dir: dir, stream: stream, header: header, footer: footer, shardSize: shardSize, info: si, dry: true}
	}
	meta.Streams = append(meta.Streams, si)
	cw := &caseWriter{dir: dir, stream: stream, header: header, footer: footer, shardSize: shardSize, info: si}
	allWriters = append(allWriters, cw)
	return cw
}

// every case writer of this run (closed by main when a generator dies, so that the cases written so far are still judged)
var allWriters []*caseWriter

// the last operator case handed to the code under test (reported when the generator itself dies afterwards)
var lastCaseDesc = "(none yet)"
func (cw *caseWriter) open() {
	name := fmt.Sprintf("%s_%03d.v", cw.stream, len(cw.info.Shards))
	cw.f, _ = os.Create(filepath.Join(cw.dir, name))
	cw.w = bufio.NewWriter(cw.f)
	fmt.Fprintln(cw.w, cw.header)
	cw.first = true
	cw.inShard = 0
	cw.info.Shards = append(cw.info.Shards, shardInfo{File: name, FirstLine: strings.Count(cw.header, "\n") + 2})
}
func (cw *caseWriter) close() {
	if cw.w == nil {
		return
	}
	fmt.Fprintln(cw.w, "")
	fmt.Fprintln(cw.w, cw.footer)
	cw.w.Flush()
	cw.f.Close()
	cw.w = nil
	cw.info.Shards[len(cw.info.Shards)-1].N = cw.inShard
}

// write one case (a Gallina term on a single line)
func (cw *caseWriter) write(term string) {
	if cw.dry {
		cw.n++
		return
	}
	if cw.w == nil {
		cw.open()
	}
	if strings.Contains(term, "\n") {
		panic("case term contains a newline")
	}
	if !cw.first {
		fmt.Fprintln(cw.w, ";")
	}
	cw.first = false
	fmt.Fprint(cw.w, term)
	cw.n++
	cw.inShard++
	cw.info.N++
	if len(meta.Samples) < 3 || (cw.n%997 == 0 && len(meta.Samples) < 8) {
		s := term
		if len(s) > 600 {
			s = s[:600] + " ..."
		}
		meta.Samples = append(meta.Samples, cw.stream+": "+s)
	}
	if cw.inShard >= cw.shardSize {
		cw.close()
	}
}

func writeMeta(dir string) {
	b, _ := json.MarshalIndent(meta, "", " ")
	os.WriteFile(filepath.Join(dir, "meta.json"), b, 0o644)
}
