package main

import (
	"fmt"
	"math"
	"math/rand"

	"gorgonia.org/tensor"
)

var c10ops = []string{"Abs", "Relu", "PRelu", "Sigmoid", "Tanh", "Sin", "Cos", "Tan", "Asin", "Acos", "Atan", "Sinh", "Cosh", "Asinh", "Acosh", "Atanh"}

// float32 special values and boundary arguments
func specials32() []float32 {
	inf := float32(math.Inf(1))
	// NaN in four bit patterns: Go's math.NaN, the negative quiet NaN the hardware produces for
	// Inf-Inf and 0*Inf, a signalling NaN, a NaN with payload
	return []float32{0, float32(math.Copysign(0, -1)), 1, -1, inf, -inf, float32(math.NaN()),
		math.Float32frombits(0xFFC00000), math.Float32frombits(0x7F800001), math.Float32frombits(0xFFFFFFFF),
		math.SmallestNonzeroFloat32, -math.SmallestNonzeroFloat32, 1e-40, -1e-40, 1.1754944e-38,
		math.MaxFloat32, -math.MaxFloat32, 0.99999994, 1.0000001, -0.99999994, -1.0000001,
		88.5, 89, -88.5, -104, 104, 710, -746, 20, -20, 0.5, -0.5, 1.5707964, 3.1415927, 1e10, -3e20, 1e-5, -1e-5, 2, -2}
}
func specials64() []float64 {
	inf := math.Inf(1)
	return []float64{0, math.Copysign(0, -1), 1, -1, inf, -inf, math.NaN(),
		math.Float64frombits(0xFFF8000000000000), math.Float64frombits(0x7FF0000000000001), math.Float64frombits(0xFFFFFFFFFFFFFFFF),
		math.SmallestNonzeroFloat64, -math.SmallestNonzeroFloat64, 1e-310, 2.2250738585072014e-308,
		math.MaxFloat64, -math.MaxFloat64, 0.9999999999999999, 1.0000000000000002, -0.9999999999999999, -1.0000000000000002,
		709.7, 710, -709.7, -745.2, -746, 745, 20, -20, 0.5, -0.5, math.Pi / 2, math.Pi, 1e10, -3e20, 1e300, 1e-5, -1e-5, 2, -2, 88.5, -104}
}

// a value for one element: special (1 in 3) or random with a random magnitude
func randVal(r *rand.Rand) float64 {
	mag := []float64{1e-30, 1e-6, 0.01, 0.5, 1, 1, 1, 3, 10, 50, 100, 1e4}[r.Intn(12)]
	return (r.Float64()*2 - 1) * mag
}

func mkFloat(r *rand.Rand, f64 bool, shape []int, specialRate int) tensor.Tensor {
	n := numel(shape)
	if f64 {
		d := make([]float64, n)
		sp := specials64()
		for i := range d {
			if r.Intn(specialRate) == 0 {
				d[i] = sp[r.Intn(len(sp))]
			} else {
				d[i] = randVal(r)
			}
		}
		if len(shape) == 0 {
			return tensor.New(tensor.FromScalar(d[0]))
		}
		return tensor.New(tensor.WithShape(shape...), tensor.WithBacking(d))
	}
	d := make([]float32, n)
	sp := specials32()
	for i := range d {
		if r.Intn(specialRate) == 0 {
			d[i] = sp[r.Intn(len(sp))]
		} else {
			d[i] = float32(randVal(r))
		}
	}
	if len(shape) == 0 {
		return tensor.New(tensor.FromScalar(d[0]))
	}
	return tensor.New(tensor.WithShape(shape...), tensor.WithBacking(d))
}

func smallShape(r *rand.Rand, lo int) []int {
	rk := lo + r.Intn(5-lo)
	for {
		s := make([]int, rk)
		for i := range s {
			s[i] = 1 + r.Intn(3)
		}
		if numel(s) <= 12 {
			return s
		}
	}
}

func genC10(dir, tier string, seed int64) {
	r := rand.New(rand.NewSource(seed))
	per := 60
	if tier == "thorough" {
		per = 5000
	}
	cw := newCaseWriter(dir, "C10_ops", opHeader("CheckC10"), opFooter,
		"16 float operators x seeded random cases: shapes of rank 0..4 (<= 12 elements), float32 and float64, every element either a special value (+-0, +-1, +-Inf, NaN, subnormals, largest finite, just inside/outside [-1,1], arguments that overflow exp/sinh/cosh, multiples of pi) or random with magnitudes 1e-30..1e4; Abs and PRelu also on the integer types their gates accept; PRelu slopes of every unidirectionally broadcastable shape (incl. (C,1,1)-style) and non-broadcastable ones; the first cases of every operator sweep the special values one by one, then a pattern of zeros of alternating sign and repeated values next to each other; Not on bool tensors", false, 120)
	for _, op := range c10ops {
		op := op
		// sweep of the special values, float32 then float64, 8 per case
		if op != "PRelu" {
			sp32, sp64 := specials32(), specials64()
			for i := 0; i < len(sp32); i += 8 {
				j := i + 8
				if j > len(sp32) {
					j = len(sp32)
				}
				v := append([]float32{}, sp32[i:j]...)
				emitOp(cw, op, nil, func() []tensor.Tensor {
					return []tensor.Tensor{tensor.New(tensor.WithShape(len(v)), tensor.WithBacking(append([]float32{}, v...)))}
				})
			}
			for i := 0; i < len(sp64); i += 8 {
				j := i + 8
				if j > len(sp64) {
					j = len(sp64)
				}
				v := append([]float64{}, sp64[i:j]...)
				emitOp(cw, op, nil, func() []tensor.Tensor {
					return []tensor.Tensor{tensor.New(tensor.WithShape(len(v)), tensor.WithBacking(append([]float64{}, v...)))}
				})
			}
		}
		if op != "PRelu" && op != "Not" {
			// runs of equal values and zeros of alternating sign next to each other (every element is mapped on
			// its own: f(-0) after f(+0) is still f(-0))
			nz := math.Copysign(0, -1)
			pat := []float64{0, nz, 0, nz, nz, 0, 0.5, 0.5, nz, 0.5, -0.5, 0, nz}
			for _, f64 := range []bool{false, true} {
				f64 := f64
				emitOp(cw, op, nil, func() []tensor.Tensor {
					if f64 {
						return []tensor.Tensor{tensor.New(tensor.WithShape(len(pat)), tensor.WithBacking(append([]float64{}, pat...)))}
					}
					v := make([]float32, len(pat))
					for i, x := range pat {
						v[i] = float32(x)
					}
					return []tensor.Tensor{tensor.New(tensor.WithShape(len(pat)), tensor.WithBacking(v))}
				})
			}
		}
		if op == "PRelu" {
			// zeros of either sign (and +-1) against slopes that are NaN, +-Inf or negative: a zero is not
			// negative, so it is returned as it is -- never multiplied by the slope
			nan, inf := math.NaN(), math.Inf(1)
			negz := math.Copysign(0, -1)
			xs := []float64{0, negz, 0, negz, 0, negz, 1, -1, 0, negz}
			sls := []float64{nan, nan, inf, -inf, -2.5, -2.5, nan, nan, -inf, inf}
			for _, f64 := range []bool{false, true} {
				f64 := f64
				mk := func(v []float64) tensor.Tensor {
					if f64 {
						return tensor.New(tensor.WithShape(len(v)), tensor.WithBacking(append([]float64{}, v...)))
					}
					w := make([]float32, len(v))
					for i, x := range v {
						w[i] = float32(x)
					}
					return tensor.New(tensor.WithShape(len(v)), tensor.WithBacking(w))
				}
				emitOp(cw, op, nil, func() []tensor.Tensor { return []tensor.Tensor{mk(xs), mk(sls)} })
				emitOp(cw, op, nil, func() []tensor.Tensor { return []tensor.Tensor{mk(xs[:6]), mk([]float64{-3})} })
			}
		}
		for c := 0; c < per; c++ {
			f64 := r.Intn(3) == 0
			shape := smallShape(r, 0)
			if op == "PRelu" {
				shape = smallShape(r, 1)
			}
			var x tensor.Tensor
			intDt := []tensor.Dtype{tensor.Int32, tensor.Int64, tensor.Uint32, tensor.Uint64, tensor.Int8, tensor.Int16, tensor.Uint8, tensor.Uint16}
			isInt := false
			if (op == "Abs" || op == "PRelu") && r.Intn(4) == 0 {
				d := intDt[r.Intn(len(intDt))]
				if op == "PRelu" {
					d = intDt[r.Intn(4)]
				}
				vals := make([]int64, numel(shape))
				for i := range vals {
					vals[i] = int64(r.Intn(41) - 20)
					if d == tensor.Uint32 || d == tensor.Uint64 || d == tensor.Uint8 || d == tensor.Uint16 {
						vals[i] = int64(r.Intn(21))
					}
					if r.Intn(6) == 0 && (d == tensor.Int64 || d == tensor.Uint64) && op == "Abs" {
						// magnitudes beyond 2^53 (not exactly representable as float64) and the extremes
						big := []int64{9007199254740993, -9007199254740993, 1234567890123456789, -1234567890123456789, math.MaxInt64, -math.MaxInt64, math.MaxInt64 - 1, 4611686018427387905}
						vals[i] = big[r.Intn(len(big))]
						if d == tensor.Uint64 && vals[i] < 0 {
							vals[i] = -vals[i]
						}
					}
					if r.Intn(10) == 0 {
						switch d {
						case tensor.Int32:
							vals[i] = math.MinInt32
						case tensor.Int64:
							vals[i] = math.MinInt64
						case tensor.Int8:
							vals[i] = math.MinInt8
						case tensor.Int16:
							vals[i] = math.MinInt16
						}
					}
				}
				x = mkT(d, shape, vals)
				isInt = true
			} else {
				x = mkFloat(r, f64, shape, 3)
			}
			ins := []tensor.Tensor{x}
			if op == "PRelu" {
				// slope: a suffix of the shape with some axes set to 1, or the full shape, or a wrong one
				k := r.Intn(len(shape) + 1)
				ss := append([]int{}, shape[len(shape)-k:]...)
				for i := range ss {
					if r.Intn(3) == 0 {
						ss[i] = 1
					}
				}
				if r.Intn(10) == 0 && len(ss) > 0 {
					ss[len(ss)-1] += 1
				}
				if numel(ss) > 12 {
					ss = []int{1}
				}
				var sl tensor.Tensor
				if isInt {
					vals := make([]int64, numel(ss))
					for i := range vals {
						vals[i] = int64(r.Intn(7) - 3)
						if x.Dtype() == tensor.Uint32 || x.Dtype() == tensor.Uint64 {
							vals[i] = int64(r.Intn(4))
						}
					}
					sl = mkT(x.Dtype(), ss, vals)
				} else {
					sl = mkFloat(r, f64, ss, 6)
					if r.Intn(15) == 0 {
						sl = mkFloat(r, !f64, ss, 6) // mismatching element type
					}
				}
				ins = append(ins, sl)
			}
			emitOp(cw, op, nil, func() []tensor.Tensor { return cloneAll(ins) })
			count("dtype", x.Dtype().String())
			count("rank", fmt.Sprint(len(shape)))
		}
	}
	// Not
	for c := 0; c < per/2+4; c++ {
		shape := smallShape(r, 0)
		vals := make([]int64, numel(shape))
		for i := range vals {
			vals[i] = int64(r.Intn(2))
		}
		x := mkT(tensor.Bool, shape, vals)
		emitOp(cw, "Not", nil, func() []tensor.Tensor { return cloneAll([]tensor.Tensor{x}) })
	}
	cw.close()
}
