package main

import (
	"flag"
	"fmt"
	"os"
	"runtime"
	"strings"
)

func main() {
	prop := flag.String("prop", "", "property id")
	tier := flag.String("tier", "quick", "quick|thorough")
	seed := flag.Int64("seed", 1, "seed for every random choice")
	out := flag.String("out", "", "output directory")
	flag.Parse()
	if *out == "" || *prop == "" {
		fmt.Fprintln(os.Stderr, "usage: vgen -prop Cxx -tier quick|thorough -seed N -out DIR")
		os.Exit(2)
	}
	os.MkdirAll(*out, 0o755)
	meta.Prop, meta.Tier, meta.Seed = *prop, *tier, *seed
	writeOpTable(*out, opTable())
	if os.Getenv("VGEN_CHILD") == "c18bytes" {
		childC18Bytes(*out, *tier, *seed)
		return
	}
	runGenerator(*prop, *out, *tier, *seed)
	if reuseAll.N > 0 {
		meta.GoOnly = append(meta.GoOnly, reuseAll)
	}
	if refillAll.N > 0 {
		meta.GoOnly = append(meta.GoOnly, refillAll)
	}
	if determAll.N > 0 {
		meta.GoOnly = append(meta.GoOnly, determAll)
	}
	if attrOrderAll.N > 0 {
		meta.GoOnly = append(meta.GoOnly, attrOrderAll)
	}
	if aliasAll.N > 0 {
		meta.GoOnly = append(meta.GoOnly, aliasAll)
	}
	if viewAll.N > 0 {
		meta.GoOnly = append(meta.GoOnly, viewAll)
	}
	if runAll.N > 0 {
		meta.GoOnly = append(meta.GoOnly, runAll)
	}
	if spareAll.N > 0 {
		meta.GoOnly = append(meta.GoOnly, spareAll)
	}
	if orderAll.N > 0 {
		meta.GoOnly = append(meta.GoOnly, orderAll)
	}
	if sizeAll.N > 0 {
		meta.GoOnly = append(meta.GoOnly, sizeAll)
	}
	if effectsAll.N > 0 && *prop != "C02" { // C02 reports the effects of all streams itself
		meta.GoOnly = append(meta.GoOnly, effectsAll)
	}
	writeMeta(*out)
	total := 0
	for _, s := range meta.Streams {
		total += s.N
	}
	fmt.Println("generated", total, "cases in", len(meta.Streams), "streams")
}

func dispatch(prop, out, tier string, seed int64) {
	switch prop {
	case "C15":
		genC15(out, tier, seed)
	case "C01":
		genC01(out, tier, seed)
	case "C02":
		genC02(out, tier, seed)
	case "C03":
		genC03(out, tier, seed)
	case "C04":
		genC04(out, tier, seed)
	case "C05":
		genC05(out, tier, seed)
	case "C06":
		genC06(out, tier, seed)
	case "C07":
		genC07(out, tier, seed)
	case "C08":
		genC08(out, tier, seed)
	case "C09":
		genC09(out, tier, seed)
	case "C10":
		genC10(out, tier, seed)
	case "C11":
		genC11(out, tier, seed)
	case "C12":
		genC12(out, tier, seed)
	case "C13":
		genC13(out, tier, seed)
	case "C14":
		genC14(out, tier, seed)
	case "C16":
		genC16(out, tier, seed)
	case "C17":
		genC17(out, tier, seed)
	case "C18":
		genC18(out, tier, seed)
	default:
		fmt.Fprintln(os.Stderr, "unknown property", prop)
		os.Exit(2)
	}
}

// runGenerator runs one property's generator. A Go panic that escapes the generator itself --
// every call into the code under test is made under recover(), so this is the harness's OWN code
// dying, e.g. the tensor library refusing to build a perfectly ordinary input because an earlier
// call of the code under test left the library's process-wide state (its tensor pool) corrupted --
// is not a broken check: it is reported as a violation with the last operator case handed to the
// code under test, and the cases written up to that point are still judged.
var generatorDied = goOnlyResult{Stream: "generator_integrity", Rule: "the harness's own code (building ordinary input tensors with the tensor library, printing them) runs to completion: every call into the code under test is made under recover(), so a panic outside those calls means an earlier call left process-wide state of the tensor library corrupted", Violations: []string{}}

func runGenerator(prop, out, tier string, seed int64) {
	defer func() {
		generatorDied.N = 1
		if r := recover(); r != nil {
			buf := make([]byte, 6000)
			buf = buf[:runtime.Stack(buf, false)]
			generatorDied.Violations = append(generatorDied.Violations, fmt.Sprintf("the generator of %s (seed %d, tier %s) panicked outside any call into the code under test: %v | the last operator case before it: %s | stack: %s", prop, seed, tier, r, lastCaseDesc, strings.ReplaceAll(string(buf), "\n", " / ")))
			for _, cw := range allWriters {
				cw.close()
			}
		}
		meta.GoOnly = append(meta.GoOnly, generatorDied)
	}()
	dispatch(prop, out, tier, seed)
}
