package main

import (
	"fmt"
	"math/rand"
	"strings"

	"github.com/advancedclimatesystems/gonnx"
	"github.com/advancedclimatesystems/gonnx/onnx"
	"github.com/advancedclimatesystems/gonnx/ops/opset13"
	"gorgonia.org/tensor"
)

func randT(r *rand.Rand, f64 bool, scale float64, shape ...int) tensor.Tensor {
	n := numel(shape)
	if f64 {
		d := make([]float64, n)
		for i := range d {
			d[i] = (r.Float64()*2 - 1) * scale
		}
		return tensor.New(tensor.WithShape(shape...), tensor.WithBacking(d))
	}
	d := make([]float32, n)
	for i := range d {
		d[i] = float32((r.Float64()*2 - 1) * scale)
	}
	return tensor.New(tensor.WithShape(shape...), tensor.WithBacking(d))
}

type rnnCfg struct {
	op              string
	S, B, In, H     int
	attrs           []attr
	X, W, R         tensor.Tensor
	Bias, H0, C0, P tensor.Tensor
	outputs         []string
}

func (c *rnnCfg) inputs() []tensor.Tensor {
	ins := []tensor.Tensor{c.X, c.W, c.R, c.Bias, nil, c.H0}
	if c.op == "LSTM" {
		ins = append(ins, c.C0, c.P)
		for len(ins) > 3 && ins[len(ins)-1] == nil {
			ins = ins[:len(ins)-1]
		}
		return ins
	}
	for len(ins) > 3 && ins[len(ins)-1] == nil {
		ins = ins[:len(ins)-1]
	}
	return ins
}

// run one recurrent operator with explicit inputs under recover; outputs or nil
func runRec3(op string, attrs []attr, outputs []string, ins []tensor.Tensor) (outs []tensor.Tensor, ok bool) {
	defer func() {
		if r := recover(); r != nil {
			outs, ok = nil, false
		}
	}()
	o, err := opset13.GetOperator(op)
	if err != nil {
		return nil, false
	}
	var ap []*onnx.AttributeProto
	for _, a := range attrs {
		ap = append(ap, a.proto())
	}
	if err := o.Init(&onnx.NodeProto{Attribute: ap, Output: outputs}); err != nil {
		return nil, false
	}
	v, err := o.ValidateInputs(ins)
	if err != nil {
		return nil, false
	}
	out, err := o.Apply(v)
	if err != nil {
		return nil, false
	}
	return out, true
}

func genC06(dir, tier string, seed int64) {
	r := rand.New(rand.NewSource(seed))
	n := 240
	if tier == "thorough" {
		n = 15000
	}
	cw := newCaseWriter(dir, "C06_ops", opHeader("CheckC06"), opFooter,
		"seeded random RNN / GRU / LSTM nodes: seq 1..4, batch 1..3, input 1..3, hidden 1..3 (one case in six with one of them 4, 5, 8 or 9) (all combinations incl. hidden = 1 and batch*input = 1), every subset of the optional inputs B, initial_h, initial_c, P (omitted trailing inputs and explicitly skipped ones), default and explicit activation lists over {Sigmoid, Tanh, Relu} in the ONNX and in lower-case spelling (and, one explicit list in five, a name the library does not implement -- Softsign, HardSigmoid, LeakyRelu, Elu, Affine, ThresholdedRelu, ScaledTanh, Softplus, the empty string -- with or without activation_alpha / activation_beta; too short lists), linear_before_reset in {absent,0,1}, input_forget in {absent,0,1}, float32 (float64 rarely: must be computed or refused); weights with pairwise distinct non-zero gate blocks and biases so that any gate or bias-slot swap moves the result far outside the tolerance", false, 60)
	naming := goOnlyResult{Stream: "C06_output_names", Rule: "for every generated configuration that runs: the same node with only some of its outputs named (trailing ones left out, earlier ones skipped with an empty name: Y / -,Y_h / Y,- and for LSTM Y,-,Y_c / -,-,Y_c / -,Y_h,Y_c / -,Y_h / Y / Y,Y_h / Y,-,-) returns, at the position of every named output, bit for bit the tensor the full output list gives there", Violations: []string{}}
	split := goOnlyResult{Stream: "C06_split", Rule: "for every generated configuration that runs and every split point 0 < k < seq: running X[0:k] and then X[k:] from the final state(s) of the first piece gives, bit for bit, the Y (concatenated), Y_h and Y_c of the whole run", Violations: []string{}}
	gates := map[string]int{"RNN": 1, "GRU": 3, "LSTM": 4}
	for c := 0; c < n; c++ {
		op := []string{"RNN", "GRU", "LSTM"}[c%3]
		S, B, In, H := 1+r.Intn(4), 1+r.Intn(3), 1+r.Intn(3), 1+r.Intn(3)
		if r.Intn(6) == 0 { // larger extents: loops unrolled by 4 or 8 have a remainder here
			big := []int{4, 5, 8, 9}
			switch r.Intn(4) {
			case 0:
				S = big[r.Intn(4)]
			case 1:
				B = big[r.Intn(4)]
			case 2:
				In = big[r.Intn(4)]
			default:
				H = big[r.Intn(4)]
			}
		}
		if r.Intn(4) != 0 && H == 1 {
			H = 2 + r.Intn(2)
		}
		f64 := r.Intn(12) == 0
		scale := []float64{0.5, 1, 2}[r.Intn(3)]
		G := gates[op]
		cfg := &rnnCfg{op: op, S: S, B: B, In: In, H: H}
		cfg.X = randT(r, f64, scale, S, B, In)
		cfg.W = randT(r, f64, scale, 1, G*H, In)
		cfg.R = randT(r, f64, scale, 1, G*H, H)
		if r.Intn(3) != 0 {
			cfg.Bias = randT(r, f64, scale, 1, 2*G*H)
		}
		if r.Intn(2) == 0 {
			cfg.H0 = randT(r, f64, scale, 1, B, H)
		}
		cfg.outputs = []string{"Y", "Y_h"}
		if op == "LSTM" {
			cfg.outputs = []string{"Y", "Y_h", "Y_c"}
			if r.Intn(2) == 0 {
				cfg.C0 = randT(r, f64, scale, 1, B, H)
			}
			if r.Intn(3) == 0 {
				cfg.P = randT(r, f64, scale, 1, 3*H)
			}
		}
		cfg.attrs = []attr{aInt("hidden_size", int64(H))}
		nAct := map[string]int{"RNN": 1, "GRU": 2, "LSTM": 3}[op]
		switch r.Intn(7) {
		case 0, 1: // explicit list
			names := []string{"Sigmoid", "Tanh", "Relu"}
			if r.Intn(2) == 0 {
				names = []string{"sigmoid", "tanh", "relu"}
			}
			var l []string
			for i := 0; i < nAct; i++ {
				l = append(l, names[r.Intn(3)])
			}
			withParams := false
			if r.Intn(5) == 0 {
				// activations of the ONNX list that the library does not implement: refused, never replaced
				// by a default or computed with parameters other than the node's
				other := []string{"Softsign", "HardSigmoid", "hardsigmoid", "LeakyRelu", "Elu", "Affine", "ThresholdedRelu", "ScaledTanh", "Softplus", ""}
				l[r.Intn(len(l))] = other[r.Intn(len(other))]
				withParams = r.Intn(2) == 0
			}
			if r.Intn(10) == 0 && len(l) > 1 {
				l = l[:len(l)-1]
			}
			cfg.attrs = append(cfg.attrs, aStrs("activations", l))
			if withParams {
				al, be := make([]float32, len(l)), make([]float32, len(l))
				for i := range al {
					al[i], be[i] = 0.3+float32(i)*0.1, 0.4
				}
				cfg.attrs = append(cfg.attrs, aFloats("activation_alpha", al), aFloats("activation_beta", be))
			}
		}
		if op == "GRU" && r.Intn(2) == 0 {
			cfg.attrs = append(cfg.attrs, aInt("linear_before_reset", int64(r.Intn(2))))
		}
		if op == "LSTM" && r.Intn(3) == 0 {
			cfg.attrs = append(cfg.attrs, aInt("input_forget", int64(r.Intn(2))))
		}
		if r.Intn(10) == 0 {
			cfg.attrs = append(cfg.attrs, aStr("direction", "forward"))
		}
		ins := cfg.inputs()
		nodeOutputs = cfg.outputs
		emitOp(cw, op, cfg.attrs, func() []tensor.Tensor { return cloneAll(ins) })
		count("op", op)
		count("dims", fmt.Sprintf("h%d_bi%d", H, B*In))

		// split consistency, Go against Go
		whole, ok := runRec3(op, cfg.attrs, cfg.outputs, cloneAll(ins))
		if ok {
			// outputs are bound by POSITION: whichever outputs the node names (trailing ones left out, earlier
			// ones skipped with ""), every named output is the tensor the full list gives at that position
			lists := [][]string{{"Y"}, {"", "Y_h"}, {"Y", ""}}
			if op == "LSTM" {
				lists = [][]string{{"Y", "", "Y_c"}, {"", "", "Y_c"}, {"", "Y_h", "Y_c"}, {"", "Y_h"}, {"Y"}, {"Y", "Y_h"}, {"Y", "", ""}}
			}
			for _, l := range lists {
				naming.N++
				nodeOutputs = l
				res, okl := runRec3(op, cfg.attrs, l, cloneAll(ins))
				nodeOutputs = cfg.outputs
				bad := ""
				if !okl {
					bad = "the node fails although it runs with all outputs named"
				} else if len(res) < len(l) {
					bad = fmt.Sprintf("%d results for %d output names", len(res), len(l))
				} else {
					for i, n := range l {
						if n == "" {
							continue
						}
						if res[i] == nil || i >= len(whole) || tval(res[i]) != tval(whole[i]) {
							bad = fmt.Sprintf("output %d (%s) is not the tensor the full output list gives at that position", i, n)
							break
						}
					}
				}
				if bad != "" && len(naming.Violations) < 10 {
					naming.Violations = append(naming.Violations, fmt.Sprintf("%s seq %d batch %d input %d hidden %d with outputs %q: %s", op, S, B, In, H, l, bad))
				}
			}
		}
		if !ok || S < 2 {
			continue
		}
		for k := 1; k < S; k++ {
			split.N++
			x1, _ := cfg.X.Slice(tensor.S(0, k))
			x2, _ := cfg.X.Slice(tensor.S(k, S))
			X1 := x1.Materialize().(tensor.Tensor)
			X2 := x2.Materialize().(tensor.Tensor)
			X1.Reshape(k, B, In)
			X2.Reshape(S-k, B, In)
			in1 := cloneAll(ins)
			in1[0] = X1
			o1, ok1 := runRec3(op, cfg.attrs, cfg.outputs, in1)
			if !ok1 {
				split.Violations = append(split.Violations, fmt.Sprintf("%s seq %d batch %d input %d hidden %d: the first piece (length %d) fails although the whole sequence runs", op, S, B, In, H, k))
				continue
			}
			in2 := make([]tensor.Tensor, 6)
			copy(in2, cloneAll(ins))
			if op == "LSTM" {
				in2 = make([]tensor.Tensor, 8)
				copy(in2, cloneAll(ins))
				in2[6] = o1[2]
			}
			in2[0] = X2
			in2[5] = o1[1]
			o2, ok2 := runRec3(op, cfg.attrs, cfg.outputs, in2)
			if !ok2 {
				split.Violations = append(split.Violations, fmt.Sprintf("%s seq %d batch %d input %d hidden %d: the second piece (from %d) fails although the whole sequence runs", op, S, B, In, H, k))
				continue
			}
			yy, err := tensor.Concat(0, o1[0], o2[0])
			if err != nil {
				if len(split.Violations) < 10 {
					split.Violations = append(split.Violations, fmt.Sprintf("%s seq %d batch %d input %d hidden %d split at %d: the Y pieces %v and %v cannot be concatenated along the time axis (%v); the whole run gives Y of shape %v", op, S, B, In, H, k, o1[0].Shape(), o2[0].Shape(), err, whole[0].Shape()))
				}
				continue
			}
			same := tval(yy) == tval(whole[0]) && tval(o2[1]) == tval(whole[1])
			if op == "LSTM" {
				same = same && tval(o2[2]) == tval(whole[2])
			}
			if same && k == 1 && !f64 {
				// the same split INSIDE ONE GRAPH: the first node hands over only its final state(s) (its Y output
				// is left unnamed), the second node skips sequence_lens with "" and starts from them
				split.N++
				var ap []*onnx.AttributeProto
				for _, a := range cfg.attrs {
					ap = append(ap, a.proto())
				}
				names := []string{"x", "w", "r", "b", "", "h0", "c0", "p"}
				inits := map[string]tensor.Tensor{}
				n1, n2 := make([]string, len(ins)), make([]string, len(ins))
				for i, t := range ins {
					if t == nil {
						continue
					}
					n1[i], n2[i] = names[i], names[i]
					if i > 0 {
						inits[names[i]] = t.Clone().(tensor.Tensor)
					}
				}
				n1[0], n2[0] = "x1", "x2"
				for len(n2) < 6 {
					n2 = append(n2, "")
				}
				n2[5] = "h1"
				o1n, o2n := []string{"", "h1"}, []string{"Y2", "h2"}
				if op == "LSTM" {
					for len(n2) < 7 {
						n2 = append(n2, "")
					}
					n2[6] = "c1"
					o1n, o2n = []string{"", "h1", "c1"}, []string{"Y2", "h2", "c2"}
				}
				mb := realModel([]string{"x1", "x2"}, map[string]int{"x1": 3, "x2": 3}, inits,
					[]realNode{{op: op, attrs: ap, in: n1, out: o1n}, {op: op, attrs: ap, in: n2, out: o2n}}, o2n)
				func() {
					defer func() {
						if rec := recover(); rec != nil {
							split.Violations = append(split.Violations, fmt.Sprintf("%s: the two-node split graph panicked: %v", op, rec))
						}
					}()
					m, err := gonnx.NewModelFromBytes(mb)
					if err != nil {
						split.Violations = append(split.Violations, fmt.Sprintf("%s: the two-node split graph does not load: %v", op, err))
						return
					}
					out, err := m.Run(gonnx.Tensors{"x1": X1.Clone().(tensor.Tensor), "x2": X2.Clone().(tensor.Tensor)})
					if err != nil {
						if len(split.Violations) < 10 {
							split.Violations = append(split.Violations, fmt.Sprintf("%s attrs %v: the split as ONE GRAPH (first node's Y unnamed, second node skipping sequence_lens) fails although both pieces run on their own: %v", op, attrKinds(cfg.attrs), err))
						}
						return
					}
					for j, nm := range o2n {
						if out[nm] == nil || tval(out[nm]) != tval(o2[j]) {
							if len(split.Violations) < 10 {
								split.Violations = append(split.Violations, fmt.Sprintf("%s attrs %v: output %s of the split as one graph differs from the second piece run on its own", op, attrKinds(cfg.attrs), nm))
							}
							return
						}
					}
				}()
			}
			if !same && len(split.Violations) < 10 {
				split.Violations = append(split.Violations, fmt.Sprintf("%s seq %d batch %d input %d hidden %d attrs %v split at %d: pieces give %s | %s, whole gives %s | %s", op, S, B, In, H, attrKinds(cfg.attrs), k, clip(tval(yy), 200), clip(tval(o2[1]), 120), clip(tval(whole[0]), 200), clip(tval(whole[1]), 120)))
			}
		}
	}
	nodeOutputs = defaultNodeOutputs
	cw.close()
	naming.Distinct = naming.N
	meta.GoOnly = append(meta.GoOnly, naming)
	split.Distinct = split.N // every case is a fresh random draw / a different model, count or split point
	meta.GoOnly = append(meta.GoOnly, split)
}

func attrKinds(as []attr) string {
	var s []string
	for _, a := range as {
		s = append(s, a.gallina())
	}
	return strings.Join(s, ";")
}
