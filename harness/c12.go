package main

import (
	"encoding/binary"
	"fmt"
	"math"
	"math/rand"
	"strings"
	"time"

	"github.com/advancedclimatesystems/gonnx"
	"github.com/advancedclimatesystems/gonnx/onnx"
	"google.golang.org/protobuf/proto"
	"gorgonia.org/tensor"
)

func zsU64(xs []uint64) string {
	ss := make([]string, len(xs))
	for i, x := range xs {
		ss[i] = fmt.Sprint(x)
	}
	return "[" + strings.Join(ss, ";") + "]"
}
func zsI32(xs []int32) string {
	v := make([]int64, len(xs))
	for i, x := range xs {
		v[i] = int64(x)
	}
	return zs(v)
}
func zsBytes(xs []byte) string {
	ss := make([]string, len(xs))
	for i, x := range xs {
		ss[i] = fmt.Sprint(x)
	}
	return "[" + strings.Join(ss, ";") + "]"
}

func tprotoGallina(tp *onnx.TensorProto) string {
	f := make([]string, len(tp.FloatData))
	for i, x := range tp.FloatData {
		f[i] = fmt.Sprint(math.Float32bits(x))
	}
	d := make([]string, len(tp.DoubleData))
	for i, x := range tp.DoubleData {
		d[i] = fmt.Sprint(math.Float64bits(x))
	}
	return fmt.Sprintf("{| tp_type := %d; tp_dims := %s; tp_raw := %s; tp_float := [%s]; tp_int32 := %s; tp_int64 := %s; tp_double := [%s]; tp_uint64 := %s |}",
		tp.DataType, zs(tp.Dims), zsBytes(tp.RawData), strings.Join(f, ";"), zsI32(tp.Int32Data), zs(tp.Int64Data), strings.Join(d, ";"), zsU64(tp.Uint64Data))
}

func observeDecode(tp *onnx.TensorProto) (obs string) {
	defer func() {
		if r := recover(); r != nil {
			obs = "OPanic"
		}
	}()
	t, err := onnx.TensorFromProto(tp)
	if err != nil {
		return "(OErr " + ekind(err) + ")"
	}
	return "(OOk [" + tval(t) + "])"
}

// the same proto as the only initializer of a model whose declared output is that initializer:
// NewModelFromBytes(proto.Marshal(...)) then Run with no inputs
var loadCounter = 0

// the proto as ONE OF THREE initializers (position rotating; the two others are well-formed) of a model
// whose declared output is that initializer. The model is first built once from the ModelProto object
// (gonnx.NewModel), which must leave the proto as it was; the judged load is NewModelFromBytes of the
// re-marshalled proto, then Run.
func observeLoad(tp *onnx.TensorProto) (obs string) {
	defer func() {
		if r := recover(); r != nil {
			obs = "OPanic"
		}
	}()
	tp2 := proto.Clone(tp).(*onnx.TensorProto)
	tp2.Name = "w"
	good := func(n string) *onnx.TensorProto {
		return &onnx.TensorProto{Name: n, Dims: []int64{2}, DataType: 1, RawData: []byte{0, 0, 128, 63, 0, 0, 0, 64}}
	}
	inits := []*onnx.TensorProto{good("g0"), good("g1")}
	pos := loadCounter % 3
	loadCounter++
	inits = append(inits[:pos], append([]*onnx.TensorProto{tp2}, inits[pos:]...)...)
	if loadCounter%3 == 1 {
		// one model in three also carries, BEFORE the judged initializer, a twin with the same element type and
		// the very same payload but other dims of the same element count (reversed; (1,n) for a vector; (1) for
		// a scalar): each initializer keeps the shape of its own dims, and the twin is malformed exactly when
		// the judged one is
		twin := proto.Clone(tp).(*onnx.TensorProto)
		twin.Name = "twin"
		switch len(tp.Dims) {
		case 0:
			twin.Dims = []int64{1}
		case 1:
			twin.Dims = []int64{1, tp.Dims[0]}
		default:
			twin.Dims = make([]int64, len(tp.Dims))
			for i, d := range tp.Dims {
				twin.Dims[len(tp.Dims)-1-i] = d
			}
		}
		inits = append([]*onnx.TensorProto{twin}, inits...)
	}
	mp := &onnx.ModelProto{
		IrVersion:   7,
		OpsetImport: []*onnx.OperatorSetIdProto{{Version: 13}},
		Graph: &onnx.GraphProto{
			Name:        "g",
			Initializer: inits,
			Output:      []*onnx.ValueInfoProto{{Name: "w"}},
		},
	}
	if loadCounter%2 == 0 && len(tp2.Dims) >= 1 {
		// every other model ALSO lists the initializer as a graph input (a default), declared with another static
		// shape of the same element count (the dims reversed, or (n,1) for a vector): the initializer keeps the
		// shape of its own dims
		decl := make([]int64, len(tp2.Dims))
		for i, d := range tp2.Dims {
			decl[len(decl)-1-i] = d
		}
		if len(decl) == 1 {
			decl = append(decl, 1)
		}
		var dd []*onnx.TensorShapeProto_Dimension
		for _, d := range decl {
			dd = append(dd, &onnx.TensorShapeProto_Dimension{Value: &onnx.TensorShapeProto_Dimension_DimValue{DimValue: d}})
		}
		mp.Graph.Input = []*onnx.ValueInfoProto{{Name: "w", Type: &onnx.TypeProto{Value: &onnx.TypeProto_TensorType{TensorType: &onnx.TypeProto_Tensor{ElemType: tp2.DataType, Shape: &onnx.TensorShapeProto{Dim: dd}}}}}}
	}
	b, err := proto.Marshal(mp)
	if err != nil {
		return "(OErr EOther)"
	}
	func() {
		defer func() { recover() }()
		gonnx.NewModel(mp)
	}()
	b2, err := proto.Marshal(mp)
	if err != nil || string(b2) != string(b) {
		return "OPanic" // building a Model consumed or altered the caller's proto
	}
	// the same model declaring a well-formed initializer as its output instead: it must load and run
	// exactly when the judged one does (a malformed initializer may not be dropped silently)
	mp.Graph.Output = []*onnx.ValueInfoProto{{Name: "g0"}}
	b3, _ := proto.Marshal(mp)
	otherRuns := func() (ok bool) {
		defer func() {
			if r := recover(); r != nil {
				ok = false
			}
		}()
		m3, err := gonnx.NewModelFromBytes(b3)
		if err != nil {
			return false
		}
		_, err = m3.Run(gonnx.Tensors{})
		return err == nil
	}()
	m, err := gonnx.NewModelFromBytes(b2)
	if err != nil {
		if otherRuns {
			return "OPanic"
		}
		return "(OErr " + ekind(err) + ")"
	}
	out, err := m.Run(gonnx.Tensors{})
	if err != nil {
		if otherRuns {
			return "OPanic" // refused only when it is the output: otherwise silently dropped
		}
		return "(OErr " + ekind(err) + ")"
	}
	if !otherRuns {
		return "OPanic"
	}
	return "(OOk [" + tval(out["w"]) + "])"
}

// the same proto as the `value` attribute of a Constant node (always named "c", output always "y":
// whatever is remembered per node or output name from an earlier model would show)
func observeConstant(tp *onnx.TensorProto) (obs string) {
	defer func() {
		if r := recover(); r != nil {
			obs = "OPanic"
		}
	}()
	mp := &onnx.ModelProto{
		IrVersion:   7,
		OpsetImport: []*onnx.OperatorSetIdProto{{Version: 13}},
		Graph: &onnx.GraphProto{
			Name:   "g",
			Node:   []*onnx.NodeProto{{Name: "c", OpType: "Constant", Output: []string{"y"}, Attribute: []*onnx.AttributeProto{{Name: "value", Type: onnx.AttributeProto_TENSOR, T: proto.Clone(tp).(*onnx.TensorProto)}}}},
			Output: []*onnx.ValueInfoProto{{Name: "y"}},
		},
	}
	b, err := proto.Marshal(mp)
	if err != nil {
		return "(OErr EOther)"
	}
	m, err := gonnx.NewModelFromBytes(b)
	if err != nil {
		return "(OErr " + ekind(err) + ")"
	}
	out, err := m.Run(gonnx.Tensors{})
	if err != nil {
		return "(OErr " + ekind(err) + ")"
	}
	return "(OOk [" + tval(out["y"]) + "])"
}

// ConstantOfShape decodes its `value` attribute with the same decoder: a one-element value (rank 0 or
// [1]) of every element type must fill the requested shape with exactly that value and type; a proto
// the decoder refuses must make the node fail, not crash
var cosRes = goOnlyResult{Stream: "C12_constant_of_shape", Rule: "every generated proto that TensorFromProto refuses, or decodes to exactly one element: as the `value` attribute of a ConstantOfShape node applied to the shape [2]: refused protos are refused (error, no panic); a one-element value yields a tensor of shape (2), the value's element type, both elements bit-identical to the decoded value (for -0 and NaN values only acceptance is required: the fill is an addition to zero; a bool value may be refused)", Violations: []string{}}

func observeCOS(tp *onnx.TensorProto) {
	dec, derr := func() (t tensor.Tensor, err error) {
		defer func() {
			if r := recover(); r != nil {
				err = fmt.Errorf("panic")
			}
		}()
		return onnx.TensorFromProto(proto.Clone(tp).(*onnx.TensorProto))
	}()
	if derr == nil && (dec == nil || numel([]int(dec.Shape())) != 1) {
		return
	}
	cosRes.N++
	obs := observeWithOutputs("ConstantOfShape", []*onnx.AttributeProto{{Name: "value", Type: onnx.AttributeProto_TENSOR, T: proto.Clone(tp).(*onnx.TensorProto)}}, []string{"y"},
		[]tensor.Tensor{tensor.New(tensor.WithShape(1), tensor.WithBacking([]int64{2}))})
	bad := ""
	switch {
	case obs == "OPanic":
		bad = "panic"
	case derr != nil && !strings.HasPrefix(obs, "(OErr"):
		bad = "a value the decoder refuses was accepted: " + clip(obs, 200)
	case derr == nil && dec.Dtype() == tensor.Bool && strings.HasPrefix(obs, "(OErr"):
		// bool fill values are refused: an element type the operator does not support, reported as an error
	case derr == nil && loosely(dec):
		// -0 and NaN payloads: the fill is computed as 0 + value, which keeps the value but not the sign of a
		// zero or a NaN's payload; only the outcome class is required
		if !strings.HasPrefix(obs, "(OOk") {
			bad = "a well-formed value was not accepted: " + clip(obs, 200)
		}
	case derr == nil:
		one := tval(dec) // {| dt := D; sh := ...; pl := [v] |}
		i, j := strings.Index(one, "pl := ["), strings.LastIndex(one, "]")
		d0 := strings.Index(one, "dt := ")
		d1 := strings.Index(one, ";")
		if i < 0 || j < i || d0 < 0 || d1 < d0 {
			return
		}
		v := one[i+len("pl := [") : j]
		want := fmt.Sprintf("(OOk [Some {| %s; sh := [2]%%nat; pl := [%s;%s] |}])", one[d0:d1], v, v)
		if obs != want {
			bad = fmt.Sprintf("got %s want %s", clip(obs, 200), clip(want, 200))
		}
	}
	if bad != "" && len(cosRes.Violations) < 10 {
		cosRes.Violations = append(cosRes.Violations, fmt.Sprintf("ConstantOfShape with value %s: %s", clip(tprotoGallina(tp), 300), bad))
	}
}

func loosely(t tensor.Tensor) bool {
	var f float64
	switch d := t.Data().(type) {
	case float32:
		f = float64(d)
	case float64:
		f = d
	case []float32:
		f = float64(d[0])
	case []float64:
		f = d[0]
	default:
		return false
	}
	return f != f || (f == 0 && math.Signbit(f))
}

type tinfo struct {
	code  int32
	width int
	kind  string // f32 f64 i u b
	bits  int
	field string // float int32 int64 double uint64
}

var ttypes = []tinfo{
	{1, 4, "f32", 32, "float"}, {2, 1, "u", 8, "int32"}, {3, 1, "i", 8, "int32"}, {4, 2, "u", 16, "int32"},
	{5, 2, "i", 16, "int32"}, {6, 4, "i", 32, "int32"}, {7, 8, "i", 64, "int64"}, {9, 1, "b", 1, "int32"},
	{11, 8, "f64", 64, "double"}, {12, 4, "u", 32, "uint64"}, {13, 8, "u", 64, "uint64"},
}

// element bit patterns: extremes, negatives, NaN payloads, -0, then seeded random
func patterns(r *rand.Rand, ti tinfo, n int) []uint64 {
	var pool []uint64
	switch ti.kind {
	case "f32":
		pool = []uint64{0, 0x80000000, 0x3f800000, 0xbf800000, 0x7f800000, 0xff800000, 0x7fc00000, 0x7fc00001, 0xffc12345, 0x7f800001, 0x7f7fffff, 1, 0x00800000, 0x40490fdb}
	case "f64":
		pool = []uint64{0, 0x8000000000000000, 0x3ff0000000000000, 0xbff0000000000000, 0x7ff0000000000000, 0xfff0000000000000, 0x7ff8000000000000, 0x7ff8000000000001, 0xfff8123456789abc, 0x7ff0000000000001, 0x7fefffffffffffff, 1, 0x400921fb54442d18}
	case "b":
		pool = []uint64{0, 1}
	default:
		m := uint64(1)<<uint(ti.bits) - 1
		if ti.bits == 64 {
			m = math.MaxUint64
		}
		pool = []uint64{0, 1, 2, m, m - 1, m >> 1, (m >> 1) + 1, (m >> 1) + 2, 0x55 & m, 0xa5a5a5a5a5a5a5a5 & m, 0x0123456789abcdef & m}
	}
	out := make([]uint64, n)
	for i := range out {
		if r.Intn(4) == 0 {
			out[i] = r.Uint64()
			if ti.bits < 64 {
				out[i] &= uint64(1)<<uint(ti.bits) - 1
			}
			if ti.kind == "b" {
				out[i] &= 1
			}
		} else {
			out[i] = pool[r.Intn(len(pool))]
		}
	}
	return out
}

func rawOf(ti tinfo, vals []uint64) []byte {
	var b []byte
	for _, v := range vals {
		buf := make([]byte, 8)
		binary.LittleEndian.PutUint64(buf, v)
		b = append(b, buf[:ti.width]...)
	}
	return b
}

func signExtend(v uint64, bits int) int64 {
	if bits == 64 {
		return int64(v)
	}
	if v&(1<<uint(bits-1)) != 0 {
		return int64(v) - (1 << uint(bits))
	}
	return int64(v)
}

func setTyped(tp *onnx.TensorProto, ti tinfo, vals []uint64) {
	switch ti.field {
	case "float":
		for _, v := range vals {
			tp.FloatData = append(tp.FloatData, math.Float32frombits(uint32(v)))
		}
	case "double":
		for _, v := range vals {
			tp.DoubleData = append(tp.DoubleData, math.Float64frombits(v))
		}
	case "int32":
		for _, v := range vals {
			if ti.kind == "i" {
				tp.Int32Data = append(tp.Int32Data, int32(signExtend(v, ti.bits)))
			} else {
				tp.Int32Data = append(tp.Int32Data, int32(v))
			}
		}
	case "int64":
		for _, v := range vals {
			tp.Int64Data = append(tp.Int64Data, int64(v))
		}
	case "uint64":
		tp.Uint64Data = append(tp.Uint64Data, vals...)
	}
}

var decodeDeterminism = goOnlyResult{Stream: "C12_decode_determinism", Rule: "every generated TensorProto is decoded again (twice; twelve times when more than one payload field is populated): onnx.TensorFromProto must give the same outcome -- element type, shape, values or refusal -- every time", Violations: []string{}}

func genC12(dir, tier string, seed int64) {
	exactNaN = true
	defer func() { exactNaN = false }()
	r := rand.New(rand.NewSource(seed))
	hdr := "From Coq Require Import List String ZArith.\nFrom V Require Import DType Case Decode CheckC12.\nImport ListNotations.\nOpen Scope Z_scope.\nDefinition cases : list pcase := ["
	cwA := newCaseWriter(dir, "C12_decode", hdr, opFooter,
		"onnx.TensorFromProto on generated TensorProtos: 11 element types x {typed field, raw little-endian bytes} x shapes of rank 0..4 (extents 1..3) x element bit patterns (extremes, negatives, NaN payloads incl. signalling, -0, random); payload length perturbed (short by a byte / an element, long by a byte / an element, empty); typed field AND raw bytes populated with different element counts (either one matching dims) or equal counts and other values; dims with a zero or negative entry or one entry off; every other data_type code 0..22, 99, negative ones and the int32 extremes with each typed field or raw populated or nothing populated, and codes 0, 16, 99 with every pair of typed fields (equal and different lengths) and all five populated; NaN payloads compared bit for bit", false, 500)
	cwB := newCaseWriter(dir, "C12_load", hdr, opFooter,
		"the same protos as one of three initializers (first, middle or last; the others well-formed; one model in three also carries, before it, a twin with the same payload and element type but other dims of the same element count) of a model whose declared output is that initializer: the model is first built once with gonnx.NewModel(mp), which must leave the proto byte-identical; then NewModelFromBytes(proto.Marshal(mp)) and Run with no inputs; the same model declaring one of the well-formed initializers as its output must load and run exactly when this one does (reported as a panic-class outcome otherwise)", false, 500)
	cwC := newCaseWriter(dir, "C12_constant", hdr, opFooter,
		"the same protos as the `value` attribute of a Constant node (node name, output name and graph identical in every model) whose result is the declared output: NewModelFromBytes then Run", false, 500)
	emit := func(tp *onnx.TensorProto, tag string) {
		g := tprotoGallina(tp)
		cwC.write(fmt.Sprintf("  {| pc_tp := %s; pc_obs := %s |}", g, observeConstant(tp)))
		observeCOS(tp)
		first := observeDecode(proto.Clone(tp).(*onnx.TensorProto))
		cwA.write(fmt.Sprintf("  {| pc_tp := %s; pc_obs := %s |}", g, first))
		// decoding is a function of the proto: the same proto decoded again gives the same outcome (twelve
		// more times when several typed fields are populated, twice otherwise)
		nf := 0
		for _, l := range []int{len(tp.FloatData), len(tp.Int32Data), len(tp.Int64Data), len(tp.DoubleData), len(tp.Uint64Data), len(tp.RawData)} {
			if l > 0 {
				nf++
			}
		}
		again := 2
		if nf >= 2 {
			again = 12
		}
		decodeDeterminism.N++
		for k := 0; k < again; k++ {
			if o := observeDecode(proto.Clone(tp).(*onnx.TensorProto)); o != first {
				if len(decodeDeterminism.Violations) < 10 {
					decodeDeterminism.Violations = append(decodeDeterminism.Violations, fmt.Sprintf("TensorFromProto on %s: decoded again (attempt %d) it gives %s, the first time it gave %s", clip(g, 400), k+2, clip(o, 300), clip(first, 300)))
				}
				break
			}
		}
		cwB.write(fmt.Sprintf("  {| pc_tp := %s; pc_obs := %s |}", g, observeLoad(tp)))
		count("variant", tag)
		count("data_type", fmt.Sprint(tp.DataType))
	}
	shapes := shapesUpToRank(0, 4, []int{1, 2, 3})
	reps := 30
	if tier == "thorough" {
		reps = 400
	}
	for _, ti := range ttypes {
		for rep := 0; rep < reps; rep++ {
			for _, enc := range []string{"typed", "raw"} {
				s := shapes[r.Intn(len(shapes))]
				if rep < 3 {
					s = [][]int{{}, {1}, {2, 3}}[rep] // always cover rank 0, a single element, a matrix
				}
				n := numel(s)
				dims := make([]int64, len(s))
				for i, d := range s {
					dims[i] = int64(d)
				}
				vals := patterns(r, ti, n)
				mk := func(vs []uint64, raw []byte, dm []int64) *onnx.TensorProto {
					tp := &onnx.TensorProto{DataType: ti.code, Dims: dm}
					if enc == "typed" {
						setTyped(tp, ti, vs)
					} else {
						tp.RawData = raw
					}
					return tp
				}
				raw := rawOf(ti, vals)
				emit(mk(vals, raw, dims), enc+"-valid")
				// malformed payload lengths
				switch r.Intn(3) {
				case 0:
					if enc == "raw" && len(raw) > 0 {
						emit(mk(vals, raw[:len(raw)-1], dims), "raw-short-byte")
					} else if n > 1 {
						emit(mk(vals[:n-1], rawOf(ti, vals[:n-1]), dims), enc+"-short-element")
					}
				case 1:
					if enc == "raw" {
						emit(mk(vals, append(append([]byte{}, raw...), 7), dims), "raw-long-byte")
					} else {
						emit(mk(append(append([]uint64{}, vals...), vals[0]), nil, dims), "typed-long-element")
					}
				default:
					if n > 1 {
						emit(mk(vals[:n-1], rawOf(ti, vals[:n-1]), dims), enc+"-short-element")
					} else {
						emit(mk(append(append([]uint64{}, vals...), vals[0]), rawOf(ti, append(append([]uint64{}, vals...), vals[0])), dims), enc+"-long-element")
					}
				}
				if rep%3 == 0 {
					emit(mk(nil, nil, dims), "empty-payload")
				}
				// raw payloads that are off by every number of bytes below the element width, both ways
				if enc == "raw" && len(raw) > 0 {
					w := len(raw) / n
					for d := 1; d < w; d++ {
						if r.Intn(2) == 0 {
							emit(mk(vals, append(append([]byte{}, raw...), make([]byte, d)...), dims), fmt.Sprintf("raw-long-%d-bytes", d))
						} else if len(raw) > d {
							emit(mk(vals, raw[:len(raw)-d], dims), fmt.Sprintf("raw-short-%d-bytes", d))
						}
					}
				}
				// raw payloads that are too long by whole ZERO elements, up to the next multiple of 8 bytes and beyond
				if enc == "raw" && rep%3 == 0 {
					for _, extra := range []int{1, 2, 3, 7} {
						pad := append(append([]byte{}, raw...), make([]byte, extra*ti.width)...)
						for len(pad)%8 != 0 && extra == 7 {
							pad = append(pad, 0)
						}
						emit(mk(vals, pad, dims), "raw-long-zero-elements")
					}
				}
				// malformed dims
				if len(dims) > 0 && rep%2 == 0 {
					bad := append([]int64{}, dims...)
					k := r.Intn(len(bad))
					switch r.Intn(3) {
					case 0:
						bad[k] = 0
					case 1:
						bad[k] = -bad[k]
					default:
						bad[k]++
					}
					emit(mk(vals, raw, bad), "bad-dims")
					// sign patterns that leave the product unchanged, and extents whose product wraps
					if len(dims) >= 2 {
						two := append([]int64{}, dims...)
						i, j := r.Intn(len(two)), r.Intn(len(two)-1)
						if j >= i {
							j++
						}
						two[i], two[j] = -two[i], -two[j]
						emit(mk(vals, raw, two), "bad-dims-two-negative")
						all := append([]int64{}, dims...)
						for q := range all {
							all[q] = -all[q]
						}
						emit(mk(vals, raw, all), "bad-dims-all-negative")
					}
					if rep%4 == 0 {
						wrap := [][]int64{{1 << 32, 1 << 32}, {1 << 62, 4}, {1 << 32, 1 << 31, 2}, {-(1 << 32), -(1 << 32)}, {math.MaxInt64, 2}, {math.MinInt64, 2}}
						w := wrap[r.Intn(len(wrap))]
						emit(mk(nil, nil, w), "bad-dims-wrapping-empty")
						emit(mk(vals, raw, append(append([]int64{}, w...), dims...)), "bad-dims-wrapping")
					}
				}
			}
		}
	}
	// raw BOOL bytes other than 0 and 1: any non-zero byte is true (0x80..0xFF included)
	for _, bs := range [][]byte{{0, 1, 2, 0x7f, 0x80, 0xff}, {0xff}, {0x80, 0}, {0xfe, 0x81, 0x40}} {
		emit(&onnx.TensorProto{DataType: 9, Dims: []int64{int64(len(bs))}, RawData: bs}, "raw-bool-bytes")
	}
	// the data_location flag (EXTERNAL = 1) on inline payloads, well-formed and malformed: the library does
	// not implement external storage; a flagged initializer is decoded like any other (or refused), never
	// skipped
	for _, tp := range []*onnx.TensorProto{
		{DataType: 1, Dims: []int64{2}, FloatData: []float32{10, 20}},
		{DataType: 1, Dims: []int64{2}, FloatData: []float32{10, 20, 30}},
		{DataType: 7, Dims: []int64{1}, RawData: []byte{1, 0, 0, 0, 0, 0, 0, 0}},
		{DataType: 7, Dims: []int64{1}, RawData: []byte{1, 0, 0}},
		{DataType: 1, Dims: []int64{2}},
		{DataType: 10, Dims: []int64{1}, RawData: []byte{0, 60}},
	} {
		tp.DataLocation = onnx.TensorProto_EXTERNAL
		emit(tp, "data-location-external")
		tp2 := proto.Clone(tp).(*onnx.TensorProto)
		tp2.ExternalData = []*onnx.StringStringEntryProto{{Key: "location", Value: "weights.bin"}}
		emit(tp2, "data-location-external")
	}
	// every other data_type code with each field populated / nothing populated
	codes := []int32{0, 8, 10, 14, 15, 16, 17, 18, 19, 20, 21, 22, 99, -1, -7, math.MaxInt32, math.MinInt32}
	for _, code := range codes {
		for _, field := range []string{"none", "raw", "float", "int32", "int64", "double", "uint64"} {
			tp := &onnx.TensorProto{DataType: code, Dims: []int64{2}}
			switch field {
			case "raw":
				tp.RawData = []byte{1, 2, 3, 4, 5, 6, 7, 8}
			case "float":
				tp.FloatData = []float32{1, 2}
			case "int32":
				tp.Int32Data = []int32{1, 2}
			case "int64":
				tp.Int64Data = []int64{1, 2}
			case "double":
				tp.DoubleData = []float64{1, 2}
			case "uint64":
				tp.Uint64Data = []uint64{1, 2}
			}
			emit(tp, "unsupported-type-"+field)
		}
	}
	// data_type UNDEFINED (and two unsupported codes) with SEVERAL typed fields populated, of equal or of
	// different lengths (so that which field is looked at decides the element count test as well): every
	// pair of fields in both length assignments, and all five at once
	fields := []string{"float", "int32", "int64", "double", "uint64"}
	setField := func(tp *onnx.TensorProto, f string, n int) {
		switch f {
		case "float":
			tp.FloatData = []float32{1, 2, 3}[:n]
		case "int32":
			tp.Int32Data = []int32{4, 5, 6}[:n]
		case "int64":
			tp.Int64Data = []int64{7, 8, 9}[:n]
		case "double":
			tp.DoubleData = []float64{10, 11, 12}[:n]
		case "uint64":
			tp.Uint64Data = []uint64{13, 14, 15}[:n]
		}
	}
	for _, code := range []int32{0, 16, 99} {
		for i, fa := range fields {
			for _, fb := range fields[i+1:] {
				for _, lens := range [][2]int{{2, 2}, {2, 3}, {3, 2}} {
					tp := &onnx.TensorProto{DataType: code, Dims: []int64{2}}
					setField(tp, fa, lens[0])
					setField(tp, fb, lens[1])
					emit(tp, "unsupported-type-two-fields")
				}
			}
		}
		for _, n := range []int{2, 3} {
			tp := &onnx.TensorProto{DataType: code, Dims: []int64{2}}
			for k, f := range fields {
				setField(tp, f, []int{n, 5 - n}[k%2])
			}
			emit(tp, "unsupported-type-all-fields")
		}
	}
	// BOTH encodings populated (typed field and raw bytes) with different element counts, either of which
	// may be the one that matches dims; equal counts with different values; rank 0 and rank 1..2
	for _, ti := range ttypes {
		one := uint64(1)
		if ti.kind == "f32" {
			one = uint64(math.Float32bits(1))
		} else if ti.kind == "f64" {
			one = math.Float64bits(1)
		}
		for _, c := range []struct {
			dims         []int64
			nTyped, nRaw int
		}{{[]int64{2}, 3, 2}, {[]int64{2}, 2, 3}, {[]int64{2, 2}, 1, 4}, {[]int64{2, 3}, 4, 6}, {[]int64{2, 2}, 4, 3}, {nil, 2, 1}, {nil, 1, 2}, {[]int64{2}, 2, 2}, {[]int64{3}, 2, 2}} {
			tp := &onnx.TensorProto{DataType: ti.code, Dims: c.dims}
			tv := make([]uint64, c.nTyped)
			for i := range tv {
				tv[i] = one
			}
			rv := make([]uint64, c.nRaw) // zeros: other values than the typed field's
			setTyped(tp, ti, tv)
			tp.RawData = rawOf(ti, rv)
			emit(tp, "both-encodings")
		}
	}
	// several malformed initializers in ONE graph: the model is refused with an error, within a deadline,
	// however many initializers are at fault and wherever they stand
	multi := goOnlyResult{Stream: "C12_several_malformed", Rule: "graphs with 3..6 initializers of which two, three or all are malformed (payload short by an element, one value too many, unsupported data_type, a negative dim, raw bytes short by one): gonnx.NewModel and NewModelFromBytes return an error within 60 s -- no hang, no panic, no Model", Violations: []string{}}
	bads := []func(n string) *onnx.TensorProto{
		func(n string) *onnx.TensorProto {
			return &onnx.TensorProto{Name: n, Dims: []int64{3}, DataType: 1, FloatData: []float32{1, 2}}
		},
		func(n string) *onnx.TensorProto {
			return &onnx.TensorProto{Name: n, Dims: []int64{2}, DataType: 7, Int64Data: []int64{1, 2, 3}}
		},
		func(n string) *onnx.TensorProto {
			return &onnx.TensorProto{Name: n, Dims: []int64{2}, DataType: 16, FloatData: []float32{1, 2}}
		},
		func(n string) *onnx.TensorProto {
			return &onnx.TensorProto{Name: n, Dims: []int64{-2}, DataType: 1, FloatData: []float32{1, 2}}
		},
		func(n string) *onnx.TensorProto {
			return &onnx.TensorProto{Name: n, Dims: []int64{2}, DataType: 1, RawData: []byte{0, 0, 128, 63, 0, 0, 0}}
		},
	}
	goodInit := func(n string) *onnx.TensorProto {
		return &onnx.TensorProto{Name: n, Dims: []int64{2}, DataType: 1, RawData: []byte{0, 0, 128, 63, 0, 0, 0, 64}}
	}
	nMulti := 40
	if tier == "thorough" {
		nMulti = 400
	}
	for c := 0; c < nMulti && len(multi.Violations) < 5; c++ {
		n := 3 + r.Intn(4)
		nBad := []int{2, 2, 3, n}[r.Intn(4)]
		isBad := map[int]bool{}
		for _, i := range r.Perm(n)[:nBad] {
			isBad[i] = true
		}
		var inits []*onnx.TensorProto
		desc := ""
		for i := 0; i < n; i++ {
			if isBad[i] {
				k := r.Intn(len(bads))
				inits = append(inits, bads[k](fmt.Sprintf("w%d", i)))
				desc += fmt.Sprintf("bad%d ", k)
			} else {
				inits = append(inits, goodInit(fmt.Sprintf("w%d", i)))
				desc += "good "
			}
		}
		mp := &onnx.ModelProto{IrVersion: 7, OpsetImport: []*onnx.OperatorSetIdProto{{Version: 13}}, Graph: &onnx.GraphProto{Name: "g", Initializer: inits, Output: []*onnx.ValueInfoProto{{Name: "w0"}}}}
		b, _ := proto.Marshal(mp)
		multi.N++
		done := make(chan string, 1)
		go func() {
			defer func() {
				if rec := recover(); rec != nil {
					done <- fmt.Sprintf("panic: %v", rec)
				}
			}()
			var how string
			if c%2 == 0 {
				_, err := gonnx.NewModel(mp)
				how = fmt.Sprintf("NewModel: err=%v", err)
				if err != nil {
					how = "refused"
				}
			} else {
				_, err := gonnx.NewModelFromBytes(b)
				how = fmt.Sprintf("NewModelFromBytes: err=%v", err)
				if err != nil {
					how = "refused"
				}
			}
			done <- how
		}()
		select {
		case how := <-done:
			if how != "refused" {
				multi.Violations = append(multi.Violations, fmt.Sprintf("initializers [%s]: %s", desc, how))
			}
		case <-time.After(60 * time.Second):
			multi.Violations = append(multi.Violations, fmt.Sprintf("initializers [%s]: loading did not return within 60 s", desc))
			nMulti = 0 // a hang leaves a goroutine behind: stop here
		}
	}
	multi.Distinct = multi.N
	meta.GoOnly = append(meta.GoOnly, multi)
	cwA.close()
	cwB.close()
	cwC.close()
	decodeDeterminism.Distinct = decodeDeterminism.N
	meta.GoOnly = append(meta.GoOnly, decodeDeterminism)
	cosRes.Distinct = cosRes.N
	meta.GoOnly = append(meta.GoOnly, cosRes)
	_ = tensor.Float32
}
