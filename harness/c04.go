package main

import (
	"fmt"
	"math/rand"

	"gorgonia.org/tensor"
)

// integer-valued tensor of a numeric dtype (float arithmetic on it is exact)
func intData(r *rand.Rand, d tensor.Dtype, shape []int) tensor.Tensor {
	n := numel(shape)
	v := make([]int64, n)
	for i := range v {
		v[i] = int64(r.Intn(7) - 3)
		if d == tensor.Uint32 || d == tensor.Uint64 {
			v[i] = int64(r.Intn(4))
		}
	}
	return mkT(d, shape, v)
}

func cloneAll(ts []tensor.Tensor) []tensor.Tensor {
	out := make([]tensor.Tensor, len(ts))
	for i, t := range ts {
		if t != nil {
			out[i] = t.Clone().(tensor.Tensor)
		}
	}
	return out
}

func genC04(dir, tier string, seed int64) {
	payloadAsIntegers = true
	defer func() { payloadAsIntegers = false }()
	r := rand.New(rand.NewSource(seed))
	nMat, nGemm, nLin, nSc := 700, 500, 250, 200
	if tier == "thorough" {
		nMat, nGemm, nLin, nSc = 12000, 8000, 3000, 2000
	}
	cw := newCaseWriter(dir, "C04_ops", opHeader("CheckC04"), opFooter,
		"seeded random: MatMul over operand ranks 1..5 (vector.vector, vector.matrix, matrix.vector, stacks with broadcastable and non-broadcastable batch shapes, size-1 matrix dimensions inside a batch, inner extents matching or not); Gemm over M,K,N in 1..3, the 4 transpose combinations, alpha/beta in -2..3 or absent, C in {absent, scalar, (N), (1,N), (M,1), (M,N), (1), (1,1), wrong shapes}; LinearRegressor over 1..3 targets x 1..4 features, intercepts of length targets / 1 / wrong / absent, coefficient count divisible or not; Scaler over ranks 1..3 with offset/scale of length F, 1 or wrong; element types float32 (mostly), float64, int32, int64, uint32, uint64; integer-valued data so that float arithmetic is exact and results are compared exactly", false, 300)
	dts := []tensor.Dtype{tensor.Float32, tensor.Float32, tensor.Float32, tensor.Float32, tensor.Float64, tensor.Int32, tensor.Int64, tensor.Uint32, tensor.Uint64}
	ext := func() int { return 1 + r.Intn(3) }
	// ---- MatMul ----
	for c := 0; c < nMat; c++ {
		d := pick(r, dts)
		ra, rb := 1+r.Intn(5), 1+r.Intn(5)
		if c%4 == 0 {
			ra, rb = 1+r.Intn(3), 1+r.Intn(3)
		}
		K := ext()
		K2 := K
		if r.Intn(8) == 0 {
			K2 = ext()
		}
		var sa, sb []int
		if ra == 1 {
			sa = []int{K}
		} else {
			sa = []int{ext(), K}
		}
		if rb == 1 {
			sb = []int{K2}
		} else {
			sb = []int{K2, ext()}
		}
		// batch axes: mostly compatible
		nba, nbb := ra-2, rb-2
		if nba < 0 {
			nba = 0
		}
		if nbb < 0 {
			nbb = 0
		}
		mx := nba
		if nbb > mx {
			mx = nbb
		}
		common := make([]int, mx)
		for i := range common {
			common[i] = ext()
		}
		ba, bb := make([]int, nba), make([]int, nbb)
		for i := 0; i < nba; i++ {
			ba[nba-1-i] = common[mx-1-i]
			if r.Intn(3) == 0 {
				ba[nba-1-i] = 1
			}
		}
		for i := 0; i < nbb; i++ {
			bb[nbb-1-i] = common[mx-1-i]
			if r.Intn(3) == 0 {
				bb[nbb-1-i] = 1
			}
			if r.Intn(12) == 0 {
				bb[nbb-1-i] = ext()
			}
		}
		sa = append(ba, sa...)
		sb = append(bb, sb...)
		a, b := intData(r, d, sa), intData(r, d, sb)
		if r.Intn(25) == 0 { // mixed element types
			b = intData(r, pick(r, dts), sb)
		}
		emitOp(cw, "MatMul", nil, func() []tensor.Tensor { return cloneAll([]tensor.Tensor{a, b}) })
		count("matmul_ranks", fmt.Sprintf("%d.%d", ra, rb))
	}
	// ---- Gemm ----
	for c := 0; c < nGemm; c++ {
		d := pick(r, dts)
		M, K, N := ext(), ext(), ext()
		tA, tB := r.Intn(2), r.Intn(2)
		var attrs []attr
		if r.Intn(3) != 0 {
			attrs = append(attrs, aFloat("alpha", float32(r.Intn(6)-2)))
		}
		if r.Intn(3) != 0 {
			attrs = append(attrs, aFloat("beta", float32(r.Intn(6)-2)))
		}
		if tA == 1 || r.Intn(4) == 0 {
			attrs = append(attrs, aInt("transA", int64(tA)))
		}
		if tB == 1 || r.Intn(4) == 0 {
			attrs = append(attrs, aInt("transB", int64(tB)))
		}
		sa, sb := []int{M, K}, []int{K, N}
		if tA == 1 {
			sa = []int{K, M}
		}
		if tB == 1 {
			sb = []int{N, K}
		}
		if r.Intn(12) == 0 {
			sb[0] = ext()
		}
		if r.Intn(30) == 0 {
			sa = []int{sa[0]}
		}
		cshapes := [][]int{nil, {}, {N}, {1, N}, {M, 1}, {M, N}, {1}, {1, 1}, {N + 1}, {M + 1, N}, {1, M, N}, {M}}
		cs := cshapes[r.Intn(len(cshapes))]
		a, b := intData(r, d, sa), intData(r, d, sb)
		ins := []tensor.Tensor{a, b}
		if cs != nil {
			ins = append(ins, intData(r, d, cs))
			count("gemm_c", fmt.Sprint(cs))
		} else {
			count("gemm_c", "absent")
		}
		emitOp(cw, "Gemm", attrs, func() []tensor.Tensor { return cloneAll(ins) })
	}
	// ---- LinearRegressor ----
	fl := func(n int) []float32 {
		v := make([]float32, n)
		for i := range v {
			v[i] = float32(r.Intn(7) - 3)
		}
		return v
	}
	for c := 0; c < nLin; c++ {
		T, F, N := 1+r.Intn(3), 1+r.Intn(4), ext()
		nco := T * F
		if r.Intn(15) == 0 {
			nco++
		}
		var attrs []attr
		if r.Intn(25) != 0 {
			attrs = append(attrs, aFloats("coefficients", fl(nco)))
		}
		switch r.Intn(8) {
		case 0: // absent
		case 1:
			attrs = append(attrs, aFloats("intercepts", fl(1)))
		case 2:
			attrs = append(attrs, aFloats("intercepts", fl(T+1)))
		default:
			attrs = append(attrs, aFloats("intercepts", fl(T)))
		}
		if T != 1 || r.Intn(2) == 0 {
			attrs = append(attrs, aInt("targets", int64(T)))
		}
		d := pick(r, []tensor.Dtype{tensor.Float32, tensor.Float32, tensor.Float32, tensor.Float64, tensor.Int32, tensor.Int64})
		xs := []int{N, F}
		if r.Intn(12) == 0 {
			xs = []int{N, F + 1}
		}
		if r.Intn(20) == 0 {
			xs = []int{F}
		}
		x := intData(r, d, xs)
		emitOp(cw, "LinearRegressor", attrs, func() []tensor.Tensor { return cloneAll([]tensor.Tensor{x}) })
	}
	// ---- Scaler ----
	for c := 0; c < nSc; c++ {
		F := 1 + r.Intn(4)
		rk := 1 + r.Intn(3)
		xs := make([]int, rk)
		for i := range xs {
			xs[i] = ext()
		}
		xs[rk-1] = F
		lo, ls := F, F
		switch r.Intn(10) {
		case 0:
			lo = 1
		case 1:
			ls = 1
		case 2:
			lo = F + 1
		case 3:
			ls = F + 1
		}
		attrs := []attr{aFloats("offset", fl(lo)), aFloats("scale", fl(ls))}
		if r.Intn(20) == 0 {
			attrs = attrs[:1]
		}
		d := pick(r, []tensor.Dtype{tensor.Float32, tensor.Float32, tensor.Float32, tensor.Float64, tensor.Int32, tensor.Int64})
		x := intData(r, d, xs)
		emitOp(cw, "Scaler", attrs, func() []tensor.Tensor { return cloneAll([]tensor.Tensor{x}) })
	}
	cw.close()
}
