package main

import (
	"fmt"
	"math/rand"

	"gorgonia.org/tensor"
)

// integer-valued tensor of a numeric dtype (float arithmetic on it is exact)
func intData(r *rand.Rand, d tensor.Dtype, shape []int) tensor.Tensor {
	n := numel(shape)
	v := make([]int64, n)
	for i := range v {
		v[i] = int64(r.Intn(7) - 3)
		if d == tensor.Uint32 || d == tensor.Uint64 {
			v[i] = int64(r.Intn(4))
		}
	}
	return mkT(d, shape, v)
}

func bigIntData(r *rand.Rand, d tensor.Dtype, shape []int) tensor.Tensor {
	n := numel(shape)
	v := make([]int64, n)
	pool := []int64{1, 0, 2, 1 << 53, (1 << 53) + 1, 3037000500, 1234567890123456789, 65536, 65537, 7, 1 << 31, (1 << 31) - 1, 1 << 62}
	if d == tensor.Int32 || d == tensor.Uint32 {
		pool = []int64{1, 0, 2, 65536, 65537, 7, 46341, (1 << 31) - 1, 1 << 30, 123456789}
	}
	for i := range v {
		v[i] = pool[r.Intn(len(pool))]
		if (d == tensor.Int32 || d == tensor.Int64) && r.Intn(4) == 0 {
			v[i] = -v[i]
		}
	}
	return mkT(d, shape, v)
}

func cloneAll(ts []tensor.Tensor) []tensor.Tensor {
	out := make([]tensor.Tensor, len(ts))
	for i, t := range ts {
		if t != nil {
			out[i] = t.Clone().(tensor.Tensor)
		}
	}
	return out
}

func genC04(dir, tier string, seed int64) {
	payloadAsIntegers = true
	defer func() { payloadAsIntegers = false }()
	r := rand.New(rand.NewSource(seed))
	nMat, nGemm, nLin, nSc := 700, 500, 250, 200
	if tier == "thorough" {
		nMat, nGemm, nLin, nSc = 36000, 24000, 9000, 6000
	}
	cw := newCaseWriter(dir, "C04_ops", opHeader("CheckC04"), opFooter,
		"seeded random: MatMul over operand ranks 1..5 (vector.vector, vector.matrix, matrix.vector, stacks with broadcastable and non-broadcastable batch shapes, size-1 matrix dimensions inside a batch, inner extents matching or not); Gemm over M,K,N in 1..3 (1 extent in 12: 5, 8, 9 or 17, also for MatMul), the 4 transpose combinations, alpha/beta in -2..3 or absent, C in {absent, scalar, (N), (1,N), (M,1), (M,N), (1), (1,1), wrong shapes}; LinearRegressor over 1..3 targets x 1..4 features, intercepts of length targets / 1 / wrong / absent, coefficient count divisible or not; Scaler over ranks 1..3 with offset/scale of length F, 1 or wrong; element types float32 (mostly), float64, int32, int64, uint32, uint64 (half of the integer MatMul cases with operands beyond 2^53 / products that wrap around the type); integer-valued data so that float arithmetic is exact and results are compared exactly", false, 300)
	dts := []tensor.Dtype{tensor.Float32, tensor.Float32, tensor.Float32, tensor.Float32, tensor.Float64, tensor.Int32, tensor.Int64, tensor.Uint32, tensor.Uint64}
	ext := func() int {
		if r.Intn(12) == 0 {
			return []int{5, 8, 9, 17}[r.Intn(4)] // beyond any unrolling factor, not a multiple of it
		}
		return 1 + r.Intn(3)
	}
	// ---- MatMul ----
	for c := 0; c < nMat; c++ {
		d := pick(r, dts)
		ra, rb := 1+r.Intn(5), 1+r.Intn(5)
		if c%4 == 0 {
			ra, rb = 1+r.Intn(3), 1+r.Intn(3)
		}
		K := ext()
		K2 := K
		if r.Intn(8) == 0 {
			K2 = ext()
		}
		var sa, sb []int
		if ra == 1 {
			sa = []int{K}
		} else {
			sa = []int{ext(), K}
		}
		if rb == 1 {
			sb = []int{K2}
		} else {
			sb = []int{K2, ext()}
		}
		// batch axes: mostly compatible
		nba, nbb := ra-2, rb-2
		if nba < 0 {
			nba = 0
		}
		if nbb < 0 {
			nbb = 0
		}
		mx := nba
		if nbb > mx {
			mx = nbb
		}
		common := make([]int, mx)
		for i := range common {
			common[i] = ext()
		}
		ba, bb := make([]int, nba), make([]int, nbb)
		for i := 0; i < nba; i++ {
			ba[nba-1-i] = common[mx-1-i]
			if r.Intn(3) == 0 {
				ba[nba-1-i] = 1
			}
		}
		for i := 0; i < nbb; i++ {
			bb[nbb-1-i] = common[mx-1-i]
			if r.Intn(3) == 0 {
				bb[nbb-1-i] = 1
			}
			if r.Intn(12) == 0 {
				bb[nbb-1-i] = ext()
			}
		}
		sa = append(ba, sa...)
		sb = append(bb, sb...)
		a, b := intData(r, d, sa), intData(r, d, sb)
		if d != tensor.Float32 && d != tensor.Float64 && r.Intn(2) == 0 {
			// integer operands whose products and sums need more than 53 bits, or wrap around the type
			a, b = bigIntData(r, d, sa), bigIntData(r, d, sb)
		}
		if r.Intn(25) == 0 { // mixed element types
			b = intData(r, pick(r, dts), sb)
		}
		emitOp(cw, "MatMul", nil, func() []tensor.Tensor { return cloneAll([]tensor.Tensor{a, b}) })
		count("matmul_ranks", fmt.Sprintf("%d.%d", ra, rb))
	}
	// ---- Gemm ----
	for c := 0; c < nGemm; c++ {
		d := pick(r, dts)
		M, K, N := ext(), ext(), ext()
		tA, tB := r.Intn(2), r.Intn(2)
		var attrs []attr
		if r.Intn(3) != 0 {
			attrs = append(attrs, aFloat("alpha", float32(r.Intn(6)-2)))
		}
		if r.Intn(3) != 0 {
			attrs = append(attrs, aFloat("beta", float32(r.Intn(6)-2)))
		}
		// a transposition flag is "non-zero": 1 mostly, sometimes 2, -1, 7 or 2^32
		flag := func(t int) int64 {
			if t == 1 && r.Intn(5) == 0 {
				return []int64{2, -1, 7, 1 << 32}[r.Intn(4)]
			}
			return int64(t)
		}
		if tA == 1 || r.Intn(4) == 0 {
			attrs = append(attrs, aInt("transA", flag(tA)))
		}
		if tB == 1 || r.Intn(4) == 0 {
			attrs = append(attrs, aInt("transB", flag(tB)))
		}
		sa, sb := []int{M, K}, []int{K, N}
		if tA == 1 {
			sa = []int{K, M}
		}
		if tB == 1 {
			sb = []int{N, K}
		}
		if r.Intn(12) == 0 {
			sb[0] = ext()
		}
		if r.Intn(30) == 0 {
			sa = []int{sa[0]}
		}
		cshapes := [][]int{nil, {}, {N}, {1, N}, {M, 1}, {M, N}, {1}, {1, 1}, {N + 1}, {M + 1, N}, {1, M, N}, {M}}
		cs := cshapes[r.Intn(len(cshapes))]
		a, b := intData(r, d, sa), intData(r, d, sb)
		ins := []tensor.Tensor{a, b}
		if cs != nil {
			ins = append(ins, intData(r, d, cs))
			count("gemm_c", fmt.Sprint(cs))
		} else {
			count("gemm_c", "absent")
		}
		emitOp(cw, "Gemm", attrs, func() []tensor.Tensor { return cloneAll(ins) })
	}
	// ---- LinearRegressor ----
	fl := func(n int) []float32 {
		v := make([]float32, n)
		for i := range v {
			v[i] = float32(r.Intn(7) - 3)
		}
		return v
	}
	for c := 0; c < nLin; c++ {
		T, F, N := 1+r.Intn(3), 1+r.Intn(4), ext()
		nco := T * F
		if r.Intn(15) == 0 {
			nco++
		}
		var attrs []attr
		if r.Intn(25) != 0 {
			attrs = append(attrs, aFloats("coefficients", fl(nco)))
		}
		switch r.Intn(8) {
		case 0: // absent
		case 1:
			attrs = append(attrs, aFloats("intercepts", fl(1)))
		case 2:
			attrs = append(attrs, aFloats("intercepts", fl(T+1)))
		default:
			attrs = append(attrs, aFloats("intercepts", fl(T)))
		}
		if T != 1 || r.Intn(2) == 0 {
			attrs = append(attrs, aInt("targets", int64(T)))
		}
		d := pick(r, []tensor.Dtype{tensor.Float32, tensor.Float32, tensor.Float32, tensor.Float64, tensor.Int32, tensor.Int64})
		xs := []int{N, F}
		if r.Intn(12) == 0 {
			xs = []int{N, F + 1}
		}
		if r.Intn(20) == 0 {
			xs = []int{F}
		}
		x := intData(r, d, xs)
		emitOp(cw, "LinearRegressor", attrs, func() []tensor.Tensor { return cloneAll([]tensor.Tensor{x}) })
	}
	// ---- Scaler ----
	for c := 0; c < nSc; c++ {
		F := 1 + r.Intn(4)
		rk := 1 + r.Intn(3)
		xs := make([]int, rk)
		for i := range xs {
			xs[i] = ext()
		}
		xs[rk-1] = F
		lo, ls := F, F
		switch r.Intn(10) {
		case 0:
			lo = 1
		case 1:
			ls = 1
		case 2:
			lo = F + 1
		case 3:
			ls = F + 1
		}
		attrs := []attr{aFloats("offset", fl(lo)), aFloats("scale", fl(ls))}
		if r.Intn(20) == 0 {
			attrs = attrs[:1]
		}
		d := pick(r, []tensor.Dtype{tensor.Float32, tensor.Float32, tensor.Float32, tensor.Float64, tensor.Int32, tensor.Int64})
		x := intData(r, d, xs)
		emitOp(cw, "Scaler", attrs, func() []tensor.Tensor { return cloneAll([]tensor.Tensor{x}) })
	}
	cw.close()
	genC04Float(dir, tier, r)
}

// float32 data that is not integer valued, judged against interval enclosures (Check/CheckC04F.v)
func genC04Float(dir, tier string, r *rand.Rand) {
	payloadAsIntegers = false
	defer func() { payloadAsIntegers = true }()
	n := 120
	if tier == "thorough" {
		n = 8000
	}
	cw := newCaseWriter(dir, "C04_float", opHeader("CheckC04F"), opFooter,
		"seeded random float32 (one iteration in four: float64, which must be computed correctly or refused; attributes stay float32 values) data that is not integer valued (magnitudes 1e-3..1e3, mixed signs): MatMul (2-D, M,K,N in 1..4), Gemm (4 transpose combinations, alpha/beta absent or random, C absent / scalar / (N) / (1,N) / (M,1) / (M,N)), LinearRegressor (1..3 targets x 1..4 features, intercepts given / one / absent), Scaler (offset and scale per feature or one for all; one case in three with x within a few units of an offset of magnitude 1e5..2e9, where an algebraically equal but numerically different formula cancels): every output element must lie in the rounding-aware enclosure of the ONNX formula", false, 60)
	ext := func() int { return 1 + r.Intn(4) }
	mag := func() float64 { return []float64{1e-3, 0.1, 1, 1, 7, 1e3}[r.Intn(6)] }
	fvals := func(k int, m float64) []float32 {
		v := make([]float32, k)
		for i := range v {
			v[i] = float32((r.Float64()*2 - 1) * m)
		}
		return v
	}
	for c := 0; c < n; c++ {
		f64 := c%4 == 3 // one iteration in four: float64 tensors (computed correctly or refused)
		// MatMul
		M, K, N := ext(), ext(), ext()
		a, b := randT(r, f64, mag(), M, K), randT(r, f64, mag(), K, N)
		emitOp(cw, "MatMul", nil, func() []tensor.Tensor { return cloneAll([]tensor.Tensor{a, b}) })
		// Gemm
		tA, tB := r.Intn(2), r.Intn(2)
		sa, sb := []int{M, K}, []int{K, N}
		if tA == 1 {
			sa = []int{K, M}
		}
		if tB == 1 {
			sb = []int{N, K}
		}
		var attrs []attr
		if tA == 1 || r.Intn(3) == 0 {
			attrs = append(attrs, aInt("transA", int64(tA)))
		}
		if tB == 1 || r.Intn(3) == 0 {
			attrs = append(attrs, aInt("transB", int64(tB)))
		}
		if r.Intn(2) == 0 {
			attrs = append(attrs, aFloat("alpha", fvals(1, 3)[0]))
		}
		if r.Intn(2) == 0 {
			attrs = append(attrs, aFloat("beta", fvals(1, 3)[0]))
		}
		ga, gb := randT(r, f64, mag(), sa...), randT(r, f64, mag(), sb...)
		gin := []tensor.Tensor{ga, gb}
		switch r.Intn(6) {
		case 0:
		case 1:
			gin = append(gin, randT(r, f64, mag(), N))
		case 2:
			gin = append(gin, randT(r, f64, mag(), 1, N))
		case 3:
			gin = append(gin, randT(r, f64, mag(), M, 1))
		case 4:
			gin = append(gin, randT(r, f64, mag(), M, N))
		default:
			gin = append(gin, randT(r, f64, mag(), 1))
		}
		emitOp(cw, "Gemm", attrs, func() []tensor.Tensor { return cloneAll(gin) })
		// LinearRegressor
		T, F, Nn := 1+r.Intn(3), ext(), 1+r.Intn(3)
		la := []attr{aFloats("coefficients", fvals(T*F, mag())), aInt("targets", int64(T))}
		switch r.Intn(3) {
		case 0:
			la = append(la, aFloats("intercepts", fvals(T, mag())))
		case 1:
			if T == 1 {
				la = append(la, aFloats("intercepts", fvals(1, mag())))
			}
		}
		lx := randT(r, f64, mag(), Nn, F)
		emitOp(cw, "LinearRegressor", la, func() []tensor.Tensor { return cloneAll([]tensor.Tensor{lx}) })
		// Scaler
		lo, ls := F, F
		if r.Intn(5) == 0 {
			lo = 1
		}
		if r.Intn(5) == 0 {
			ls = 1
		}
		off, scl := fvals(lo, mag()), fvals(ls, 2)
		sx := randT(r, f64, mag(), Nn, F)
		if c%3 == 0 && !f64 {
			// a standardised feature with a large mean: x within a few units of the offset
			big := []float32{1e7, 101325, 1.7e9, 123456.7, 3e5}
			d := sx.Data().([]float32)
			for i := range off {
				off[i] = big[r.Intn(len(big))]
				if r.Intn(3) == 0 {
					off[i] = -off[i]
				}
			}
			for i := range d {
				d[i] = off[(i%F)%len(off)] + float32(r.Intn(7)-3) + float32(r.Intn(4))*0.25
			}
			for i := range scl {
				scl[i] = []float32{0.37, 0.00125, 1.1, -2.3}[r.Intn(4)]
			}
		}
		sattrs := []attr{aFloats("offset", off), aFloats("scale", scl)}
		emitOp(cw, "Scaler", sattrs, func() []tensor.Tensor { return cloneAll([]tensor.Tensor{sx}) })
	}
	cw.close()
}
