package main

import (
	"fmt"
	"math/rand"

	"github.com/advancedclimatesystems/gonnx/ops"
	"gorgonia.org/tensor"
)

func observeBroadcast(which string, a, b tensor.Tensor) (obs string) {
	defer func() {
		if r := recover(); r != nil {
			obs = "OPanic"
		}
	}()
	var na, nb tensor.Tensor
	var err error
	if which == "MultidirBroadcast" {
		na, nb, err = ops.MultidirectionalBroadcast(a, b)
	} else {
		na, nb, err = ops.UnidirectionalBroadcast(a, b)
	}
	if err != nil {
		return "(OErr " + ekind(err) + ")"
	}
	return "(OOk " + tvals([]tensor.Tensor{na, nb}) + ")"
}

func genC14(dir, tier string, seed int64) {
	exts := []int{1, 2, 3}
	maxRank := 3
	if tier == "thorough" {
		maxRank = 4
	}
	shapes := shapesUpToRank(0, maxRank, exts)
	cw := newCaseWriter(dir, "C14_pairs", opHeader("CheckC14"), opFooter,
		fmt.Sprintf("bounded-exhaustive: both helpers x all ordered pairs of shapes of rank 0..%d with extents 1..3 (%d shapes), index-coded data (A holds 100+k, B holds 500+k), dtype round-robin over all 14; sources re-read after the call", maxRank, len(shapes)), true, 600)
	k := 0
	for _, which := range []string{"MultidirBroadcast", "UnidirBroadcast"} {
		for _, sa := range shapes {
			for _, sb := range shapes {
				// the full square is large for rank 4; quick tier covers rank<=3 fully
				da, db := dtypes[k%14], dtypes[(k/14+k)%14]
				k++
				mk := func() []tensor.Tensor {
					return []tensor.Tensor{mkT(da, sa, iota64(numel(sa), 100)), mkT(db, sb, iota64(numel(sb), 500))}
				}
				ins := mk()
				obs := observeBroadcast(which, ins[0], ins[1])
				writeOpCase(cw, which, nil, mk(), obs, ins)
				count("rank_pair", fmt.Sprintf("%d-%d", len(sa), len(sb)))
			}
		}
	}
	cw.close()

	// random larger shapes
	r := rand.New(rand.NewSource(seed))
	n := 300
	if tier == "thorough" {
		n = 20000
	}
	rw := newCaseWriter(dir, "C14_random", opHeader("CheckC14"), opFooter,
		"seeded random: rank 0..5, extents 1..6 (one case in eight: ranks 5 and 6 with B equal to A except for one, mostly late, axis) (B derived from A by dropping leading axes / setting axes to 1 / perturbing one extent, so that compatible and incompatible pairs both occur), all dtypes", false, 300)
	for i := 0; i < n; i++ {
		ra := r.Intn(6)
		sa := make([]int, ra)
		for j := range sa {
			sa[j] = 1 + r.Intn(6)
			if r.Intn(4) == 0 {
				sa[j] = 1
			}
		}
		// derive B
		rb := r.Intn(6)
		sb := make([]int, rb)
		for j := range sb {
			ja := ra - rb + j
			switch {
			case ja >= 0 && r.Intn(10) < 6:
				sb[j] = sa[ja]
			case r.Intn(10) < 7:
				sb[j] = 1
			default:
				sb[j] = 1 + r.Intn(6)
			}
		}
		if i%8 == 7 {
			// ranks 5 and 6: B is A except for ONE axis (stretched from 1, or clashing), mostly a late one
			ra = 5 + r.Intn(2)
			sa = make([]int, ra)
			for j := range sa {
				sa[j] = 1 + r.Intn(2)
			}
			sb = append([]int{}, sa...)
			ax := ra - 1 - r.Intn(2)
			if r.Intn(4) == 0 {
				ax = r.Intn(ra)
			}
			sa[ax] = 2 + r.Intn(2)
			sb[ax] = []int{1, 1, sa[ax] + 1}[r.Intn(3)]
		}
		if numel(sa) > 400 || numel(sb) > 400 {
			i--
			continue
		}
		which := pick(r, []string{"MultidirBroadcast", "UnidirBroadcast"})
		da, db := pick(r, dtypes), pick(r, dtypes)
		if r.Intn(2) == 0 {
			sa, sb = sb, sa
		}
		mk := func() []tensor.Tensor {
			return []tensor.Tensor{mkT(da, sa, iota64(numel(sa), 100)), mkT(db, sb, iota64(numel(sb), 500))}
		}
		ins := mk()
		obs := observeBroadcast(which, ins[0], ins[1])
		writeOpCase(cw2(rw), which, nil, mk(), obs, ins)
		count("rank_pair", fmt.Sprintf("%d-%d", len(sa), len(sb)))
	}
	rw.close()
	// rows of more than 10000 elements behind the stretched axis, with block sizes that do not divide a power
	// of two (copying by doubling / in fixed-size chunks goes wrong only here); decided in Go against the
	// index formula out[i] = src[i restricted to the axes where src has an extent above 1]
	big := goOnlyResult{Stream: "C14_large", Rule: "both helpers on four shape pairs whose broadcast result has 10000..21000 elements ((1,3)x(3414,1), (3414,1)x(1,3), (1,60,50)x(4,1,1), (2,1,7)x(1,1500,1)): every element of both results equals the source element given by the index formula; shapes equal the broadcast shape", Violations: []string{}}
	ref := func(src tensor.Tensor, out []int) []int32 {
		ss := src.Shape()
		d := src.Data().([]int32)
		n := numel(out)
		res := make([]int32, n)
		idx := make([]int, len(out))
		for f := 0; f < n; f++ {
			rem := f
			for k := len(out) - 1; k >= 0; k-- {
				idx[k] = rem % out[k]
				rem /= out[k]
			}
			off, stride := 0, 1
			for k := len(ss) - 1; k >= 0; k-- {
				i := idx[len(out)-len(ss)+k]
				if ss[k] == 1 {
					i = 0
				}
				off += i * stride
				stride *= ss[k]
			}
			res[f] = d[off]
		}
		return res
	}
	for _, pr := range [][2][]int{{{1, 3}, {3414, 1}}, {{3414, 1}, {1, 3}}, {{1, 60, 50}, {4, 1, 1}}, {{2, 1, 7}, {1, 1500, 1}}} {
		for _, which := range []string{"MultidirBroadcast", "UnidirBroadcast"} {
			big.N++
			a, b := mkT(tensor.Int32, pr[0], iota64(numel(pr[0]), 100)), mkT(tensor.Int32, pr[1], iota64(numel(pr[1]), 500))
			func() {
				defer func() {
					if rec := recover(); rec != nil {
						big.Violations = append(big.Violations, fmt.Sprintf("%s %v x %v panicked: %v", which, pr[0], pr[1], rec))
					}
				}()
				var na, nb tensor.Tensor
				var err error
				rk := len(pr[0])
				if len(pr[1]) > rk {
					rk = len(pr[1])
				}
				out := make([]int, rk)
				okUni := len(pr[1]) <= len(pr[0])
				for k := 0; k < rk; k++ {
					ea, eb := 1, 1
					if i := k - (rk - len(pr[0])); i >= 0 {
						ea = pr[0][i]
					}
					if i := k - (rk - len(pr[1])); i >= 0 {
						eb = pr[1][i]
					}
					out[k] = ea
					if eb > ea {
						out[k] = eb
					}
					if eb != ea && eb != 1 {
						okUni = false // B may only be stretched in the unidirectional case
					}
				}
				if which == "MultidirBroadcast" {
					na, nb, err = ops.MultidirectionalBroadcast(a, b)
				} else {
					na, nb, err = ops.UnidirectionalBroadcast(a, b)
					if !okUni {
						if err == nil {
							big.Violations = append(big.Violations, fmt.Sprintf("%s %v x %v: accepted although A would have to be stretched", which, pr[0], pr[1]))
						}
						return
					}
				}
				if err != nil {
					big.Violations = append(big.Violations, fmt.Sprintf("%s %v x %v: refused: %v", which, pr[0], pr[1], err))
					return
				}
				for i, p := range []struct {
					got tensor.Tensor
					src tensor.Tensor
				}{{na, a}, {nb, b}} {
					want := ref(p.src, out)
					got, okd := p.got.Data().([]int32)
					if !okd || fmt.Sprint([]int(p.got.Shape())) != fmt.Sprint(out) || len(got) != len(want) {
						big.Violations = append(big.Violations, fmt.Sprintf("%s %v x %v: result %d has shape %v, want %v", which, pr[0], pr[1], i, p.got.Shape(), out))
						return
					}
					for f := range want {
						if got[f] != want[f] {
							big.Violations = append(big.Violations, fmt.Sprintf("%s %v x %v: result %d differs from the index formula at flat index %d: %d, want %d", which, pr[0], pr[1], i, f, got[f], want[f]))
							return
						}
					}
				}
			}()
		}
	}
	big.Distinct = big.N
	meta.GoOnly = append(meta.GoOnly, big)
}

func cw2(c *caseWriter) *caseWriter { return c }
