package main

import (
	"fmt"
	"math/rand"

	"github.com/advancedclimatesystems/gonnx/ops"
	"gorgonia.org/tensor"
)

func observeBroadcast(which string, a, b tensor.Tensor) (obs string) {
	defer func() {
		if r := recover(); r != nil {
			obs = "OPanic"
		}
	}()
	var na, nb tensor.Tensor
	var err error
	if which == "MultidirBroadcast" {
		na, nb, err = ops.MultidirectionalBroadcast(a, b)
	} else {
		na, nb, err = ops.UnidirectionalBroadcast(a, b)
	}
	if err != nil {
		return "(OErr " + ekind(err) + ")"
	}
	return "(OOk " + tvals([]tensor.Tensor{na, nb}) + ")"
}

func genC14(dir, tier string, seed int64) {
	exts := []int{1, 2, 3}
	maxRank := 3
	if tier == "thorough" {
		maxRank = 4
	}
	shapes := shapesUpToRank(0, maxRank, exts)
	cw := newCaseWriter(dir, "C14_pairs", opHeader("CheckC14"), opFooter,
		fmt.Sprintf("bounded-exhaustive: both helpers x all ordered pairs of shapes of rank 0..%d with extents 1..3 (%d shapes), index-coded data (A holds 100+k, B holds 500+k), dtype round-robin over all 14; sources re-read after the call", maxRank, len(shapes)), true, 600)
	k := 0
	for _, which := range []string{"MultidirBroadcast", "UnidirBroadcast"} {
		for _, sa := range shapes {
			for _, sb := range shapes {
				// the full square is large for rank 4; quick tier covers rank<=3 fully
				da, db := dtypes[k%14], dtypes[(k/14+k)%14]
				k++
				mk := func() []tensor.Tensor {
					return []tensor.Tensor{mkT(da, sa, iota64(numel(sa), 100)), mkT(db, sb, iota64(numel(sb), 500))}
				}
				ins := mk()
				obs := observeBroadcast(which, ins[0], ins[1])
				writeOpCase(cw, which, nil, mk(), obs, ins)
				count("rank_pair", fmt.Sprintf("%d-%d", len(sa), len(sb)))
			}
		}
	}
	cw.close()

	// random larger shapes
	r := rand.New(rand.NewSource(seed))
	n := 300
	if tier == "thorough" {
		n = 20000
	}
	rw := newCaseWriter(dir, "C14_random", opHeader("CheckC14"), opFooter,
		"seeded random: rank 0..5, extents 1..6 (one case in eight: ranks 5 and 6 with B equal to A except for one, mostly late, axis) (B derived from A by dropping leading axes / setting axes to 1 / perturbing one extent, so that compatible and incompatible pairs both occur), all dtypes", false, 300)
	for i := 0; i < n; i++ {
		ra := r.Intn(6)
		sa := make([]int, ra)
		for j := range sa {
			sa[j] = 1 + r.Intn(6)
			if r.Intn(4) == 0 {
				sa[j] = 1
			}
		}
		// derive B
		rb := r.Intn(6)
		sb := make([]int, rb)
		for j := range sb {
			ja := ra - rb + j
			switch {
			case ja >= 0 && r.Intn(10) < 6:
				sb[j] = sa[ja]
			case r.Intn(10) < 7:
				sb[j] = 1
			default:
				sb[j] = 1 + r.Intn(6)
			}
		}
		if i%8 == 7 {
			// ranks 5 and 6: B is A except for ONE axis (stretched from 1, or clashing), mostly a late one
			ra = 5 + r.Intn(2)
			sa = make([]int, ra)
			for j := range sa {
				sa[j] = 1 + r.Intn(2)
			}
			sb = append([]int{}, sa...)
			ax := ra - 1 - r.Intn(2)
			if r.Intn(4) == 0 {
				ax = r.Intn(ra)
			}
			sa[ax] = 2 + r.Intn(2)
			sb[ax] = []int{1, 1, sa[ax] + 1}[r.Intn(3)]
		}
		if numel(sa) > 400 || numel(sb) > 400 {
			i--
			continue
		}
		which := pick(r, []string{"MultidirBroadcast", "UnidirBroadcast"})
		da, db := pick(r, dtypes), pick(r, dtypes)
		if r.Intn(2) == 0 {
			sa, sb = sb, sa
		}
		mk := func() []tensor.Tensor {
			return []tensor.Tensor{mkT(da, sa, iota64(numel(sa), 100)), mkT(db, sb, iota64(numel(sb), 500))}
		}
		ins := mk()
		obs := observeBroadcast(which, ins[0], ins[1])
		writeOpCase(cw2(rw), which, nil, mk(), obs, ins)
		count("rank_pair", fmt.Sprintf("%d-%d", len(sa), len(sb)))
	}
	rw.close()
}

func cw2(c *caseWriter) *caseWriter { return c }
