package main

import (
	"fmt"
	"math"
	"math/rand"

	"github.com/advancedclimatesystems/gonnx"
	"github.com/advancedclimatesystems/gonnx/onnx"
	"google.golang.org/protobuf/proto"
	"gorgonia.org/tensor"
)

// rows `rows` of a float32 tensor along `axis`
func selectRows(t tensor.Tensor, axis int, rows []int) tensor.Tensor {
	s := []int(t.Shape())
	if d32, ok := t.Data().([]int32); ok && len(s) == 1 { // sequence_lens: one entry per sample
		out := make([]int32, len(rows))
		for i, r := range rows {
			out[i] = d32[r]
		}
		return tensor.New(tensor.WithShape(len(rows)), tensor.WithBacking(out))
	}
	d := t.Data().([]float32)
	outer, inner := 1, 1
	for i := 0; i < axis; i++ {
		outer *= s[i]
	}
	for i := axis + 1; i < len(s); i++ {
		inner *= s[i]
	}
	ns := append([]int{}, s...)
	ns[axis] = len(rows)
	out := make([]float32, 0, outer*len(rows)*inner)
	for o := 0; o < outer; o++ {
		for _, r := range rows {
			base := (o*s[axis] + r) * inner
			out = append(out, d[base:base+inner]...)
		}
	}
	return tensor.New(tensor.WithShape(ns...), tensor.WithBacking(out))
}

type batchModel struct {
	name    string
	bytes   []byte
	inputs  []string
	inAxis  []int
	mk      func(n int, r *rand.Rand) []tensor.Tensor // one tensor per input, batch of n
	outputs []string
	outAxis []int
	stress  bool // known to hit the gorgonia softmax last-axis defect (C09 class 1)
	// the model uses a feature the library may refuse (sequence_lens): a refusal of the batch is
	// accepted when every sample alone and every selection is refused as well
	mayRefuse bool
}

func f32T(r *rand.Rand, scale float64, shape ...int) tensor.Tensor {
	return randT(r, false, scale, shape...)
}

// a model from nodes and float32/int64 weights; inputs are declared with dynamic dimensions
func buildModel(nodes []*onnx.NodeProto, weights map[string]tensor.Tensor, inputs []string, ranks []int, outputs []string) []byte {
	g := &onnx.GraphProto{Name: "g", Node: nodes}
	for i, n := range inputs {
		var dims []*onnx.TensorShapeProto_Dimension
		for k := 0; k < ranks[i]; k++ {
			dims = append(dims, &onnx.TensorShapeProto_Dimension{Value: &onnx.TensorShapeProto_Dimension_DimParam{DimParam: fmt.Sprintf("d%d", k)}})
		}
		g.Input = append(g.Input, &onnx.ValueInfoProto{Name: n, Type: &onnx.TypeProto{Value: &onnx.TypeProto_TensorType{TensorType: &onnx.TypeProto_Tensor{ElemType: 1, Shape: &onnx.TensorShapeProto{Dim: dims}}}}})
	}
	for n, t := range weights {
		if v, ok := t.Data().(int64); ok { // a rank-0 int64 weight (a scalar index)
			g.Initializer = append(g.Initializer, &onnx.TensorProto{Name: n, DataType: 7, Int64Data: []int64{v}})
			continue
		}
		g.Initializer = append(g.Initializer, tensorToProto(n, t))
	}
	for _, o := range outputs {
		g.Output = append(g.Output, &onnx.ValueInfoProto{Name: o})
	}
	b, _ := proto.Marshal(&onnx.ModelProto{IrVersion: 7, OpsetImport: []*onnx.OperatorSetIdProto{{Version: 13}}, Graph: g})
	return b
}

func nd(op string, in, out []string, attrs ...*onnx.AttributeProto) *onnx.NodeProto {
	return &onnx.NodeProto{OpType: op, Input: in, Output: out, Attribute: attrs}
}

func generatedBatchModels(r *rand.Rand) []*batchModel {
	var ms []*batchModel
	i64 := func(v ...int64) tensor.Tensor { return tensor.New(tensor.WithShape(len(v)), tensor.WithBacking(v)) }
	add := func(m *batchModel) { ms = append(ms, m) }
	one := func(shape func(n int) []int, scale float64) func(int, *rand.Rand) []tensor.Tensor {
		return func(n int, r *rand.Rand) []tensor.Tensor { return []tensor.Tensor{f32T(r, scale, shape(n)...)} }
	}
	// 1. two-layer perceptron
	add(&batchModel{name: "gemm-relu-gemm-sigmoid", inputs: []string{"x"}, inAxis: []int{0}, outputs: []string{"y"}, outAxis: []int{0},
		mk: one(func(n int) []int { return []int{n, 4} }, 1),
		bytes: buildModel([]*onnx.NodeProto{nd("Gemm", []string{"x", "w1", "b1"}, []string{"a"}), nd("Relu", []string{"a"}, []string{"b"}),
			nd("Gemm", []string{"b", "w2", "b2"}, []string{"c"}, aI("transB", 1)), nd("Sigmoid", []string{"c"}, []string{"y"})},
			map[string]tensor.Tensor{"w1": f32T(r, 1, 4, 3), "b1": f32T(r, 1, 3), "w2": f32T(r, 1, 2, 3), "b2": f32T(r, 1, 1, 2)}, []string{"x"}, []int{2}, []string{"y"})})
	// 2. batched MatMul against a weight matrix
	add(&batchModel{name: "matmul3d-tanh", inputs: []string{"x"}, inAxis: []int{0}, outputs: []string{"y"}, outAxis: []int{0},
		mk: one(func(n int) []int { return []int{n, 3, 4} }, 1),
		bytes: buildModel([]*onnx.NodeProto{nd("MatMul", []string{"x", "w"}, []string{"a"}), nd("Tanh", []string{"a"}, []string{"y"})},
			map[string]tensor.Tensor{"w": f32T(r, 1, 4, 2)}, []string{"x"}, []int{3}, []string{"y"})})
	add(&batchModel{name: "matmul4d-perhead", inputs: []string{"x"}, inAxis: []int{0}, outputs: []string{"y"}, outAxis: []int{0},
		mk: one(func(n int) []int { return []int{n, 2, 3, 4} }, 1),
		bytes: buildModel([]*onnx.NodeProto{nd("MatMul", []string{"x", "w"}, []string{"y"})},
			map[string]tensor.Tensor{"w": f32T(r, 1, 2, 4, 2)}, []string{"x"}, []int{4}, []string{"y"})})
	// 3./4. convolutions
	add(&batchModel{name: "conv2d-relu-flatten-gemm", inputs: []string{"x"}, inAxis: []int{0}, outputs: []string{"y"}, outAxis: []int{0},
		mk: one(func(n int) []int { return []int{n, 2, 5, 6} }, 1),
		bytes: buildModel([]*onnx.NodeProto{nd("Conv", []string{"x", "k", "kb"}, []string{"a"}, aIs("strides", 1, 2), aIs("pads", 1, 0, 0, 1)), nd("Relu", []string{"a"}, []string{"b"}),
			nd("Flatten", []string{"b"}, []string{"c"}, aI("axis", 1)), nd("Gemm", []string{"c", "w"}, []string{"y"})},
			map[string]tensor.Tensor{"k": f32T(r, 1, 3, 2, 2, 3), "kb": f32T(r, 1, 3), "w": f32T(r, 1, 3*5*3, 2)}, []string{"x"}, []int{4}, []string{"y"})})
	for _, ap := range []string{"SAME_UPPER", "SAME_LOWER"} {
		ap := ap
		add(&batchModel{name: "conv2d-autopad-" + ap + "-strides23", inputs: []string{"x"}, inAxis: []int{0}, outputs: []string{"y"}, outAxis: []int{0},
			mk: one(func(n int) []int { return []int{n, 2, 5, 7} }, 1),
			bytes: buildModel([]*onnx.NodeProto{nd("Conv", []string{"x", "k"}, []string{"y"}, aIs("strides", 2, 3), &onnx.AttributeProto{Name: "auto_pad", S: []byte(ap), Type: onnx.AttributeProto_STRING})},
				map[string]tensor.Tensor{"k": f32T(r, 1, 2, 2, 3, 2)}, []string{"x"}, []int{4}, []string{"y"})})
	}
	add(&batchModel{name: "conv1d", inputs: []string{"x"}, inAxis: []int{0}, outputs: []string{"y"}, outAxis: []int{0},
		mk: one(func(n int) []int { return []int{n, 2, 7} }, 1),
		bytes: buildModel([]*onnx.NodeProto{nd("Conv", []string{"x", "k"}, []string{"y"}, aIs("dilations", 2))},
			map[string]tensor.Tensor{"k": f32T(r, 1, 2, 2, 2)}, []string{"x"}, []int{3}, []string{"y"})})
	// 1-D convolutions that pad the END of the signal (explicit pads, SAME_UPPER), several channels
	add(&batchModel{name: "conv1d-end-padding", inputs: []string{"x"}, inAxis: []int{0}, outputs: []string{"y"}, outAxis: []int{0},
		mk: one(func(n int) []int { return []int{n, 2, 6} }, 1),
		bytes: buildModel([]*onnx.NodeProto{nd("Conv", []string{"x", "k", "kb"}, []string{"y"}, aIs("pads", 0, 2))},
			map[string]tensor.Tensor{"k": f32T(r, 1, 3, 2, 3), "kb": f32T(r, 1, 3)}, []string{"x"}, []int{3}, []string{"y"})})
	add(&batchModel{name: "conv1d-same-upper", inputs: []string{"x"}, inAxis: []int{0}, outputs: []string{"y"}, outAxis: []int{0},
		mk: one(func(n int) []int { return []int{n, 2, 7} }, 1),
		bytes: buildModel([]*onnx.NodeProto{nd("Conv", []string{"x", "k"}, []string{"y"}, aS("auto_pad", "SAME_UPPER"), aIs("strides", 2))},
			map[string]tensor.Tensor{"k": f32T(r, 1, 2, 2, 4)}, []string{"x"}, []int{3}, []string{"y"})})
	// 5. recurrent operators: batch is axis 1 of X and of the states, axis 2 of Y
	for _, op := range []struct {
		name string
		g    int
	}{{"RNN", 1}, {"GRU", 3}, {"LSTM", 4}} {
		op := op
		H, I, S := 3, 2, 3
		outs := []string{"Y", "Yh"}
		oax := []int{2, 1}
		ins := []string{"x", "w", "r", "b", "", "h0"}
		names := []string{"x", "h0"}
		iax := []int{1, 1}
		ranks := []int{3, 3}
		if op.name == "LSTM" {
			outs, oax = []string{"Y", "Yh", "Yc"}, []int{2, 1, 1}
			ins = append(ins, "c0")
			names, iax, ranks = []string{"x", "h0", "c0"}, []int{1, 1, 1}, []int{3, 3, 3}
		}
		add(&batchModel{name: "node-" + op.name, inputs: names, inAxis: iax, outputs: outs, outAxis: oax,
			mk: func(n int, r *rand.Rand) []tensor.Tensor {
				ts := []tensor.Tensor{f32T(r, 1, S, n, I), f32T(r, 1, 1, n, H)}
				if op.name == "LSTM" {
					ts = append(ts, f32T(r, 1, 1, n, H))
				}
				return ts
			},
			bytes: buildModel([]*onnx.NodeProto{nd(op.name, ins, outs, aI("hidden_size", int64(H)))},
				map[string]tensor.Tensor{"w": f32T(r, 1, 1, op.g*H, I), "r": f32T(r, 1, 1, op.g*H, H), "b": f32T(r, 1, 1, 2*op.g*H)}, names, ranks, outs)})
		// the optional sequence_lens input (one length per sample): refused by the library; if it is ever
		// accepted, whether a sample is evaluated, and to what, must not depend on the rest of the batch
		insL := append([]string{}, ins...)
		insL[4] = "lens"
		namesL := append([]string{"x", "lens"}, names[1:]...)
		add(&batchModel{name: "node-" + op.name + "-sequence-lens", inputs: namesL, inAxis: append([]int{1, 0}, iax[1:]...), outputs: outs, outAxis: oax, mayRefuse: true,
			mk: func(n int, r *rand.Rand) []tensor.Tensor {
				lens := make([]int32, n)
				for i := range lens {
					lens[i] = int32(S)
					if r.Intn(2) == 0 {
						lens[i] = int32(1 + r.Intn(S))
					}
				}
				ts := []tensor.Tensor{f32T(r, 1, S, n, I), tensor.New(tensor.WithShape(n), tensor.WithBacking(lens)), f32T(r, 1, 1, n, H)}
				if op.name == "LSTM" {
					ts = append(ts, f32T(r, 1, 1, n, H))
				}
				return ts
			},
			bytes: buildModel([]*onnx.NodeProto{nd(op.name, insL, outs, aI("hidden_size", int64(H)))},
				map[string]tensor.Tensor{"w": f32T(r, 1, 1, op.g*H, I), "r": f32T(r, 1, 1, op.g*H, H), "b": f32T(r, 1, 1, 2*op.g*H)}, namesL, append([]int{3, 1}, ranks[1:]...), outs)})
		// direction = reverse / bidirectional: refused by the library; if ever accepted, per-sample independence
		// must hold for Y (batch on axis 2) and the final states (axis 1) alike
		for _, dir := range []string{"reverse", "bidirectional"} {
			dir := dir
			D := 1
			if dir == "bidirectional" {
				D = 2
			}
			add(&batchModel{name: "node-" + op.name + "-" + dir, inputs: []string{"x"}, inAxis: []int{1}, outputs: outs, outAxis: oax, mayRefuse: true,
				mk: one(func(n int) []int { return []int{S, n, I} }, 1),
				bytes: buildModel([]*onnx.NodeProto{nd(op.name, []string{"x", "w", "r", "b"}, outs, aI("hidden_size", int64(H)), aS("direction", dir))},
					map[string]tensor.Tensor{"w": f32T(r, 1, D, op.g*H, I), "r": f32T(r, 1, D, op.g*H, H), "b": f32T(r, 1, D, 2*op.g*H)}, []string{"x"}, []int{3}, outs)})
		}
		// default initial state, last time step taken with Gather (as sample_models/ndm.onnx does)
		add(&batchModel{name: "node-" + op.name + "-squeeze-gather-last", inputs: []string{"x"}, inAxis: []int{1}, outputs: []string{"y"}, outAxis: []int{0},
			mk: one(func(n int) []int { return []int{S, n, I} }, 1),
			bytes: buildModel([]*onnx.NodeProto{nd(op.name, []string{"x", "w", "r"}, append([]string{"Y"}, []string{"unusedYh", "unusedYc"}[:len(outs)-1]...), aI("hidden_size", int64(H))),
				nd("Squeeze", []string{"Y", "ax1"}, []string{"a"}), nd("Transpose", []string{"a"}, []string{"t"}, aIs("perm", 1, 0, 2)),
				nd("Gather", []string{"t", "last"}, []string{"y"}, aI("axis", 1))},
				map[string]tensor.Tensor{"w": f32T(r, 1, 1, op.g*H, I), "r": f32T(r, 1, 1, op.g*H, H), "ax1": i64(1), "last": tensor.New(tensor.FromScalar(int64(-1)))}, []string{"x"}, []int{3}, []string{"y"})})
	}
	// 6. elementwise chain against weights broadcast over the batch
	add(&batchModel{name: "add-mul-sub-div-abs-prelu", inputs: []string{"x"}, inAxis: []int{0}, outputs: []string{"y"}, outAxis: []int{0},
		mk: one(func(n int) []int { return []int{n, 2, 4} }, 2),
		bytes: buildModel([]*onnx.NodeProto{nd("Add", []string{"x", "a"}, []string{"t1"}), nd("Mul", []string{"t1", "m"}, []string{"t2"}), nd("Sub", []string{"t2", "a"}, []string{"t3"}),
			nd("Div", []string{"t3", "d"}, []string{"t4"}), nd("PRelu", []string{"t4", "sl"}, []string{"t5"}), nd("Abs", []string{"t5"}, []string{"y"})},
			map[string]tensor.Tensor{"a": f32T(r, 1, 4), "m": f32T(r, 1, 2, 1), "d": tensor.New(tensor.WithShape(1), tensor.WithBacking([]float32{1.7})), "sl": f32T(r, 1, 4)}, []string{"x"}, []int{3}, []string{"y"})})
	// 6a. Gemm with a per-sample offset: C is a graph input of shape (N,1) next to x (N,K)
	add(&batchModel{name: "gemm-per-sample-column-bias", inputs: []string{"x", "c"}, inAxis: []int{0, 0}, outputs: []string{"y"}, outAxis: []int{0},
		mk: func(n int, r *rand.Rand) []tensor.Tensor { return []tensor.Tensor{f32T(r, 1, n, 3), f32T(r, 2, n, 1)} },
		bytes: buildModel([]*onnx.NodeProto{nd("Gemm", []string{"x", "w", "c"}, []string{"y"})},
			map[string]tensor.Tensor{"w": f32T(r, 1, 3, 4)}, []string{"x", "c"}, []int{2, 2}, []string{"y"})})
	// 6a'. Gemm with an explicit beta other than 1 and a bias VECTOR, followed by a second Gemm: a batch of one
	// must come out as a (1,M) matrix like any other batch
	add(&batchModel{name: "gemm-beta-vector-bias-two-layers", inputs: []string{"x"}, inAxis: []int{0}, outputs: []string{"y"}, outAxis: []int{0},
		mk: one(func(n int) []int { return []int{n, 3} }, 1),
		bytes: buildModel([]*onnx.NodeProto{nd("Gemm", []string{"x", "w1", "b1"}, []string{"a"}, aF("beta", 0.5)), nd("Gemm", []string{"a", "w2", "b2"}, []string{"y"}, aF("beta", 2), aF("alpha", 0.5))},
			map[string]tensor.Tensor{"w1": f32T(r, 1, 3, 4), "b1": f32T(r, 1, 4), "w2": f32T(r, 1, 4, 2), "b2": f32T(r, 1, 2)}, []string{"x"}, []int{2}, []string{"y"})})
	// 6a''. a divisor that is exactly zero for SOME samples: those samples get the library's result for x/0,
	// the others are unaffected, and the batch as a whole is evaluated
	add(&batchModel{name: "div-with-zero-divisors-in-some-samples", inputs: []string{"a", "d"}, inAxis: []int{0, 0}, outputs: []string{"y"}, outAxis: []int{0},
		mk: func(n int, r *rand.Rand) []tensor.Tensor {
			a, d := f32T(r, 2, n, 3), f32T(r, 2, n, 3)
			dd := d.Data().([]float32)
			for i := 0; i < n; i++ {
				if r.Intn(2) == 0 {
					dd[i*3+r.Intn(3)] = 0
				}
			}
			return []tensor.Tensor{a, d}
		},
		bytes: buildModel([]*onnx.NodeProto{nd("Relu", []string{"a"}, []string{"t"}), nd("Div", []string{"t", "d"}, []string{"y"})},
			nil, []string{"a", "d"}, []int{2, 2}, []string{"y"})})
	// 6b. shapes that coincide with the batch size: x (N,1) against a weight vector (M) broadcasts to (N,M)
	// whatever N is (N = M included); x (N,T,1) against (T)
	for _, M := range []int{2, 3, 5} {
		M := M
		add(&batchModel{name: fmt.Sprintf("column-times-vector-%d", M), inputs: []string{"x"}, inAxis: []int{0}, outputs: []string{"y"}, outAxis: []int{0},
			mk: one(func(n int) []int { return []int{n, 1} }, 2),
			bytes: buildModel([]*onnx.NodeProto{nd("Mul", []string{"x", "w"}, []string{"t"}), nd("Add", []string{"w", "t"}, []string{"y"})},
				map[string]tensor.Tensor{"w": f32T(r, 1, M)}, []string{"x"}, []int{2}, []string{"y"})})
	}
	add(&batchModel{name: "sequence-column-times-vector", inputs: []string{"x"}, inAxis: []int{0}, outputs: []string{"y"}, outAxis: []int{0},
		mk: one(func(n int) []int { return []int{n, 3, 1} }, 2),
		bytes: buildModel([]*onnx.NodeProto{nd("Mul", []string{"x", "w"}, []string{"y"})},
			map[string]tensor.Tensor{"w": f32T(r, 1, 3)}, []string{"x"}, []int{3}, []string{"y"})})
	// 6c. MatMul with three leading dimensions (rank 5) against a weight matrix
	add(&batchModel{name: "matmul5d", inputs: []string{"x"}, inAxis: []int{0}, outputs: []string{"y"}, outAxis: []int{0},
		mk: one(func(n int) []int { return []int{n, 2, 3, 2, 4} }, 1),
		bytes: buildModel([]*onnx.NodeProto{nd("MatMul", []string{"x", "w"}, []string{"a"}), nd("Add", []string{"a", "b"}, []string{"y"})},
			map[string]tensor.Tensor{"w": f32T(r, 1, 4, 3), "b": f32T(r, 1, 3)}, []string{"x"}, []int{5}, []string{"y"})})
	// 7. softmax over a non-batch axis
	for _, sm := range []string{"Softmax", "LogSoftmax"} {
		sm := sm
		add(&batchModel{name: sm + "-axis1", inputs: []string{"x"}, inAxis: []int{0}, outputs: []string{"y"}, outAxis: []int{0},
			mk:    one(func(n int) []int { return []int{n, 5} }, 2),
			bytes: buildModel([]*onnx.NodeProto{nd(sm, []string{"x"}, []string{"y"}, aI("axis", 1))}, nil, []string{"x"}, []int{2}, []string{"y"})})
		add(&batchModel{name: sm + "-inner-axis", inputs: []string{"x"}, inAxis: []int{0}, outputs: []string{"y"}, outAxis: []int{0},
			mk:    one(func(n int) []int { return []int{n, 3, 2} }, 2),
			bytes: buildModel([]*onnx.NodeProto{nd(sm, []string{"x"}, []string{"y"}, aI("axis", 1))}, nil, []string{"x"}, []int{3}, []string{"y"})})
		add(&batchModel{name: sm + "-last-axis-large-logits", inputs: []string{"x"}, inAxis: []int{0}, outputs: []string{"y"}, outAxis: []int{0}, stress: true,
			mk:    one(func(n int) []int { return []int{n, 3} }, 300),
			bytes: buildModel([]*onnx.NodeProto{nd(sm, []string{"x"}, []string{"y"})}, nil, []string{"x"}, []int{2}, []string{"y"})})
	}
	// 8. batch-preserving shape operators
	add(&batchModel{name: "unsqueeze-transpose-squeeze-reshape-concat-slice", inputs: []string{"x"}, inAxis: []int{0}, outputs: []string{"y"}, outAxis: []int{0},
		mk: one(func(n int) []int { return []int{n, 4} }, 1),
		bytes: buildModel([]*onnx.NodeProto{nd("Unsqueeze", []string{"x", "ax1"}, []string{"a"}), nd("Transpose", []string{"a"}, []string{"b"}, aIs("perm", 0, 2, 1)),
			nd("Squeeze", []string{"b", "ax2"}, []string{"c"}), nd("Concat", []string{"c", "x"}, []string{"d"}, aI("axis", 1)),
			nd("Reshape", []string{"d", "shp"}, []string{"e"}), nd("Slice", []string{"e", "st", "en", "axs"}, []string{"y"})},
			map[string]tensor.Tensor{"ax1": i64(1), "ax2": i64(2), "shp": i64(0, 2, 4), "st": i64(1), "en": i64(3), "axs": i64(2)}, []string{"x"}, []int{2}, []string{"y"})})
	// 8b. batch-preserving transposes of rank 4 and 5 that swap two neighbouring inner axes (attention heads)
	add(&batchModel{name: "transpose-heads-rank4", inputs: []string{"x"}, inAxis: []int{0}, outputs: []string{"y"}, outAxis: []int{0},
		mk:    one(func(n int) []int { return []int{n, 3, 2, 4} }, 1),
		bytes: buildModel([]*onnx.NodeProto{nd("Transpose", []string{"x"}, []string{"y"}, aIs("perm", 0, 2, 1, 3))}, nil, []string{"x"}, []int{4}, []string{"y"})})
	add(&batchModel{name: "transpose-rank5-matmul", inputs: []string{"x"}, inAxis: []int{0}, outputs: []string{"y"}, outAxis: []int{0},
		mk: one(func(n int) []int { return []int{n, 2, 3, 2, 2} }, 1),
		bytes: buildModel([]*onnx.NodeProto{nd("Transpose", []string{"x"}, []string{"a"}, aIs("perm", 0, 1, 3, 2, 4)), nd("MatMul", []string{"a", "w"}, []string{"y"})},
			map[string]tensor.Tensor{"w": f32T(r, 1, 2, 3)}, []string{"x"}, []int{5}, []string{"y"})})
	add(&batchModel{name: "transpose-last-two-rank4", inputs: []string{"x"}, inAxis: []int{0}, outputs: []string{"y"}, outAxis: []int{0},
		mk:    one(func(n int) []int { return []int{n, 2, 3, 4} }, 1),
		bytes: buildModel([]*onnx.NodeProto{nd("Transpose", []string{"x"}, []string{"y"}, aIs("perm", 0, 1, 3, 2))}, nil, []string{"x"}, []int{4}, []string{"y"})})
	// 8c. integer and float64 Gemm / 2-D MatMul between Casts (refused today -- then every selection must be
	// refused; if they are computed, the rows may not mix): weights with fewer and with more columns than rows
	for _, dtc := range []struct {
		name string
		code int64
		d    tensor.Dtype
	}{{"int32", 6, tensor.Int32}, {"int64", 7, tensor.Int64}, {"float64", 11, tensor.Float64}} {
		for _, wshape := range [][2]int{{3, 2}, {2, 3}} {
			dtc, wshape := dtc, wshape
			w := mkT(dtc.d, []int{wshape[0], wshape[1]}, []int64{1, -2, 3, 2, -1, 1})
			for _, op := range []string{"Gemm", "MatMul"} {
				add(&batchModel{name: fmt.Sprintf("cast-%s-%s-%dx%d", dtc.name, op, wshape[0], wshape[1]), inputs: []string{"x"}, inAxis: []int{0}, outputs: []string{"y"}, outAxis: []int{0}, mayRefuse: true,
					mk: one(func(n int) []int { return []int{n, wshape[0]} }, 6),
					bytes: buildModel([]*onnx.NodeProto{nd("Cast", []string{"x"}, []string{"xi"}, aI("to", dtc.code)), nd(op, []string{"xi", "w"}, []string{"yi"}), nd("Cast", []string{"yi"}, []string{"y"}, aI("to", 1))},
						map[string]tensor.Tensor{"w": w}, []string{"x"}, []int{2}, []string{"y"})})
			}
		}
	}
	// 9. reductions over a non-batch axis
	add(&batchModel{name: "reducemax-argmax", inputs: []string{"x"}, inAxis: []int{0}, outputs: []string{"y"}, outAxis: []int{0},
		mk: one(func(n int) []int { return []int{n, 3, 4} }, 1),
		bytes: buildModel([]*onnx.NodeProto{nd("ReduceMax", []string{"x"}, []string{"a"}, aIs("axes", 2), aI("keepdims", 0)), nd("ReduceMin", []string{"a"}, []string{"y"}, aIs("axes", -1))},
			nil, []string{"x"}, []int{3}, []string{"y"})})
	// 10. ONNX-ML
	add(&batchModel{name: "scaler-linearregressor", inputs: []string{"x"}, inAxis: []int{0}, outputs: []string{"y"}, outAxis: []int{0},
		mk: one(func(n int) []int { return []int{n, 3} }, 1),
		bytes: buildModel([]*onnx.NodeProto{nd("Scaler", []string{"x"}, []string{"a"}, aFs("offset", 0.5, -1, 2), aFs("scale", 2, 0.5, -1)),
			nd("LinearRegressor", []string{"a"}, []string{"y"}, aFs("coefficients", 1, 2, 3, -1, 0.5, 2), aFs("intercepts", 0.25, -0.75), aI("targets", 2))},
			nil, []string{"x"}, []int{2}, []string{"y"})})
	return ms
}

func closeEnough(a, b tensor.Tensor) (bool, string) {
	if !a.Shape().Eq(b.Shape()) {
		return false, fmt.Sprintf("shapes %v vs %v", a.Shape(), b.Shape())
	}
	x, ok1 := a.Data().([]float32)
	y, ok2 := b.Data().([]float32)
	if !ok1 || !ok2 {
		if tval(a) == tval(b) {
			return true, ""
		}
		return false, "non-float outputs differ"
	}
	for i := range x {
		d := math.Abs(float64(x[i]) - float64(y[i]))
		if x[i] != x[i] || y[i] != y[i] {
			if (x[i] != x[i]) != (y[i] != y[i]) {
				return false, fmt.Sprintf("element %d: %v vs %v", i, x[i], y[i])
			}
			continue
		}
		if d > 1e-5*(1+math.Abs(float64(x[i]))) {
			return false, fmt.Sprintf("element %d: %v vs %v", i, x[i], y[i])
		}
	}
	return true, ""
}

func genC16(dir, tier string, seed int64) {
	r := rand.New(rand.NewSource(seed))
	var models []*batchModel
	for _, s := range sampleModels(true) {
		s := s
		models = append(models, &batchModel{name: "sample:" + s.name, bytes: s.bytes, inputs: s.inputs, inAxis: s.batchAxis, outputs: s.outputs, outAxis: s.outBatch,
			mk: func(n int, r *rand.Rand) []tensor.Tensor {
				var ts []tensor.Tensor
				for i := range s.inputs {
					ts = append(ts, f32T(r, 1, s.shapes(n)[i]...))
				}
				return ts
			}})
	}
	models = append(models, generatedBatchModels(r)...)
	res := goOnlyResult{Stream: "C16_batch_vs_rows", Rule: "the loadable sample models (mlp, gru, scaler, ndm) and generated models built from the per-sample operator families (Gemm/MatMul against weights incl. the batched-MatMul path, Conv 1-D/2-D, RNN/GRU/LSTM with given and default states and with a per-sample sequence_lens input (refused today: then every selection of the batch must be refused as well), elementwise chains against broadcast weights, PRelu, Softmax/LogSoftmax over non-batch axes, batch-preserving Unsqueeze/Transpose/Squeeze/Concat/Reshape/Slice/Gather, transposes of rank 4 and 5 that swap two neighbouring inner axes, integer and float64 Gemm / 2-D MatMul between Casts (refused today: then every selection must be refused), ReduceMax/Min over non-batch axes, Scaler/LinearRegressor): a batch of N = 1..5 random samples is evaluated; then every sample alone (N = 1), the batch in a random permutation, and a random sub-selection (incl. repeated rows); every output row must agree with the row computed in the other composition within |a-b| <= 1e-5 (1+|a|) (the repository's own delta)", Violations: []string{}, Known: map[string]int{}}
	reps := 2
	if tier == "thorough" {
		reps = 150
	}
	run := func(m *gonnx.Model, bm *batchModel, ins []tensor.Tensor) (outs []tensor.Tensor, err error) {
		defer func() {
			if rec := recover(); rec != nil {
				err = fmt.Errorf("panic: %v", rec)
			}
		}()
		feed := gonnx.Tensors{}
		for i, n := range bm.inputs {
			feed[n] = ins[i]
		}
		o, e := m.Run(feed)
		if e != nil {
			return nil, e
		}
		for _, n := range bm.outputs {
			outs = append(outs, o[n])
		}
		return outs, nil
	}
	sel := func(bm *batchModel, ins []tensor.Tensor, rows []int) []tensor.Tensor {
		var s []tensor.Tensor
		for i, t := range ins {
			s = append(s, selectRows(t, bm.inAxis[i], rows))
		}
		return s
	}
	for _, bm := range models {
		m, err := gonnx.NewModelFromBytes(bm.bytes)
		if err != nil {
			res.Violations = append(res.Violations, fmt.Sprintf("%s: does not load: %v", bm.name, err))
			continue
		}
		for rep := 0; rep < reps; rep++ {
			for _, N := range []int{1, 2, 3, 5} {
				if tier != "thorough" && bm.name == "sample:ndm.onnx" && N > 2 {
					continue
				}
				ins := bm.mk(N, r)
				whole, err := run(m, bm, ins)
				fail := func(what string) {
					if bm.stress {
						res.Known["1"]++
						return
					}
					if len(res.Violations) < 15 {
						res.Violations = append(res.Violations, fmt.Sprintf("%s, batch of %d: %s", bm.name, N, what))
					}
				}
				res.N++
				if err != nil && bm.mayRefuse {
					// a refused batch: every sample alone, and every selection, must be refused too
					perm := r.Perm(N)
					sels := [][]int{perm, {perm[0], perm[N-1], perm[0]}}
					for i := 0; i < N; i++ {
						sels = append(sels, []int{i})
					}
					for _, rows := range sels {
						res.N++
						if _, e2 := run(m, bm, sel(bm, ins, rows)); e2 == nil {
							fail(fmt.Sprintf("the batch is refused (%v) but rows %v of it are evaluated: whether a sample is evaluated depends on the rest of the batch", err, rows))
						}
					}
					continue
				}
				if err != nil {
					fail(fmt.Sprintf("the batch fails: %v", err))
					continue
				}
				// every row alone
				for i := 0; i < N; i++ {
					res.N++
					single, err := run(m, bm, sel(bm, ins, []int{i}))
					if err != nil {
						fail(fmt.Sprintf("sample %d alone fails (%v) although the batch runs", i, err))
						continue
					}
					for k := range whole {
						if ok, why := closeEnough(selectRowsAny(whole[k], bm.outAxis[k], []int{i}), single[k]); !ok {
							fail(fmt.Sprintf("output %s of sample %d differs between the batch and the sample alone: %s", bm.outputs[k], i, why))
							break
						}
					}
				}
				// a permutation and a sub-selection with a repeated row
				perm := r.Perm(N)
				subsel := []int{perm[0], perm[N-1], perm[0]}
				for _, rows := range [][]int{perm, subsel} {
					res.N++
					other, err := run(m, bm, sel(bm, ins, rows))
					if err != nil {
						fail(fmt.Sprintf("rows %v of the batch fail (%v) although the batch runs", rows, err))
						continue
					}
					for k := range whole {
						if ok, why := closeEnough(selectRowsAny(whole[k], bm.outAxis[k], rows), other[k]); !ok {
							fail(fmt.Sprintf("output %s for rows %v differs from the same rows of the full batch: %s", bm.outputs[k], rows, why))
							break
						}
					}
				}
			}
		}
		count("model", bm.name)
	}
	res.Distinct = res.N // every case is a fresh random draw / a different model, count or split point
	meta.GoOnly = append(meta.GoOnly, res)
}

func selectRowsAny(t tensor.Tensor, axis int, rows []int) tensor.Tensor {
	if _, ok := t.Data().([]float32); ok {
		return selectRows(t, axis, rows)
	}
	if d, ok := t.Data().(float32); ok { // a rank-0 result
		return tensor.New(tensor.FromScalar(d))
	}
	return t
}
