package main

import (
	"errors"
	"fmt"
	"github.com/advancedclimatesystems/gonnx"
	"math"
	"math/rand"
	"os"
	"reflect"
	"runtime"
	"strconv"
	"strings"

	"github.com/advancedclimatesystems/gonnx/onnx"
	"github.com/advancedclimatesystems/gonnx/ops"
	"github.com/advancedclimatesystems/gonnx/ops/opset13"
	"gorgonia.org/tensor"
)

// ---- building tensors ----

// mkT builds a tensor of the given dtype and shape whose elements are the given integers,
// converted to the dtype (bool: v != 0; floats: the numeric value; string/complex: a token).
// A nil/empty shape builds a rank-0 scalar.
func mkT(d tensor.Dtype, shape []int, vals []int64) tensor.Tensor {
	n := 1
	for _, x := range shape {
		n *= x
	}
	if len(vals) != n {
		panic(fmt.Sprintf("mkT: %d values for shape %v", len(vals), shape))
	}
	var backing interface{}
	switch d {
	case tensor.Uint8:
		b := make([]uint8, n)
		for i, v := range vals {
			b[i] = uint8(v)
		}
		backing = b
	case tensor.Uint16:
		b := make([]uint16, n)
		for i, v := range vals {
			b[i] = uint16(v)
		}
		backing = b
	case tensor.Uint32:
		b := make([]uint32, n)
		for i, v := range vals {
			b[i] = uint32(v)
		}
		backing = b
	case tensor.Uint64:
		b := make([]uint64, n)
		for i, v := range vals {
			b[i] = uint64(v)
		}
		backing = b
	case tensor.Int8:
		b := make([]int8, n)
		for i, v := range vals {
			b[i] = int8(v)
		}
		backing = b
	case tensor.Int16:
		b := make([]int16, n)
		for i, v := range vals {
			b[i] = int16(v)
		}
		backing = b
	case tensor.Int32:
		b := make([]int32, n)
		for i, v := range vals {
			b[i] = int32(v)
		}
		backing = b
	case tensor.Int64:
		b := make([]int64, n)
		copy(b, vals)
		backing = b
	case tensor.Float32:
		b := make([]float32, n)
		for i, v := range vals {
			b[i] = float32(v)
		}
		backing = b
	case tensor.Float64:
		b := make([]float64, n)
		for i, v := range vals {
			b[i] = float64(v)
		}
		backing = b
	case tensor.Complex64:
		b := make([]complex64, n)
		for i, v := range vals {
			b[i] = complex(float32(v), 0)
		}
		backing = b
	case tensor.Complex128:
		b := make([]complex128, n)
		for i, v := range vals {
			b[i] = complex(float64(v), 0)
		}
		backing = b
	case tensor.String:
		b := make([]string, n)
		for i, v := range vals {
			b[i] = strconv.FormatInt(v, 10)
		}
		backing = b
	case tensor.Bool:
		b := make([]bool, n)
		for i, v := range vals {
			b[i] = v != 0
		}
		backing = b
	default:
		panic("mkT: dtype")
	}
	if len(shape) == 0 {
		return scalarOf(backing)
	}
	return tensor.New(tensor.WithShape(shape...), tensor.WithBacking(backing))
}

func scalarOf(backing interface{}) tensor.Tensor {
	switch b := backing.(type) {
	case []uint8:
		return tensor.New(tensor.FromScalar(b[0]))
	case []uint16:
		return tensor.New(tensor.FromScalar(b[0]))
	case []uint32:
		return tensor.New(tensor.FromScalar(b[0]))
	case []uint64:
		return tensor.New(tensor.FromScalar(b[0]))
	case []int8:
		return tensor.New(tensor.FromScalar(b[0]))
	case []int16:
		return tensor.New(tensor.FromScalar(b[0]))
	case []int32:
		return tensor.New(tensor.FromScalar(b[0]))
	case []int64:
		return tensor.New(tensor.FromScalar(b[0]))
	case []float32:
		return tensor.New(tensor.FromScalar(b[0]))
	case []float64:
		return tensor.New(tensor.FromScalar(b[0]))
	case []complex64:
		return tensor.New(tensor.FromScalar(b[0]))
	case []complex128:
		return tensor.New(tensor.FromScalar(b[0]))
	case []string:
		return tensor.New(tensor.FromScalar(b[0]))
	case []bool:
		return tensor.New(tensor.FromScalar(b[0]))
	}
	panic("scalarOf")
}

// float tensors from bit patterns
func mkF32bits(shape []int, bits []uint32) tensor.Tensor {
	b := make([]float32, len(bits))
	for i, x := range bits {
		b[i] = math.Float32frombits(x)
	}
	if len(shape) == 0 {
		return tensor.New(tensor.FromScalar(b[0]))
	}
	return tensor.New(tensor.WithShape(shape...), tensor.WithBacking(b))
}
func mkF64bits(shape []int, bits []uint64) tensor.Tensor {
	b := make([]float64, len(bits))
	for i, x := range bits {
		b[i] = math.Float64frombits(x)
	}
	if len(shape) == 0 {
		return tensor.New(tensor.FromScalar(b[0]))
	}
	return tensor.New(tensor.WithShape(shape...), tensor.WithBacking(b))
}

// index-coded data: element k holds base+k, so a misplaced element cannot hide
func iota64(n int, base int64) []int64 {
	v := make([]int64, n)
	for i := range v {
		v[i] = base + int64(i)
	}
	return v
}
func numel(shape []int) int {
	n := 1
	for _, x := range shape {
		n *= x
	}
	return n
}

// all shapes of the given rank with extents in exts
func shapesOfRank(rank int, exts []int) [][]int {
	if rank == 0 {
		return [][]int{{}}
	}
	var out [][]int
	for _, s := range shapesOfRank(rank-1, exts) {
		for _, e := range exts {
			out = append(out, append(append([]int{}, s...), e))
		}
	}
	return out
}
func shapesUpToRank(lo, hi int, exts []int) [][]int {
	var out [][]int
	for r := lo; r <= hi; r++ {
		out = append(out, shapesOfRank(r, exts)...)
	}
	return out
}

// ---- attributes ----
type attr struct {
	name   string
	i      *int64
	ints   []int64
	s      *string
	strs   []string
	f      *float32
	floats []float32
	t      tensor.Tensor // value tensor (Constant, ConstantOfShape)
	tp     *onnx.TensorProto
	kind   string
}

func aInt(n string, v int64) attr        { return attr{name: n, i: &v, kind: "int"} }
func aInts(n string, v []int64) attr     { return attr{name: n, ints: v, kind: "ints"} }
func aStr(n string, v string) attr       { return attr{name: n, s: &v, kind: "str"} }
func aStrs(n string, v []string) attr    { return attr{name: n, strs: v, kind: "strs"} }
func aFloat(n string, v float32) attr    { return attr{name: n, f: &v, kind: "float"} }
func aFloats(n string, v []float32) attr { return attr{name: n, floats: v, kind: "floats"} }

func (a attr) proto() *onnx.AttributeProto {
	switch a.kind {
	case "str":
		if a.tp != nil { // a tensor attribute that cannot be decoded: printed for Coq as a string attribute of that name
			return &onnx.AttributeProto{Name: a.name, T: a.tp, Type: onnx.AttributeProto_TENSOR}
		}
		return &onnx.AttributeProto{Name: a.name, S: []byte(*a.s), Type: onnx.AttributeProto_STRING}
	case "strs":
		var bs [][]byte
		for _, s := range a.strs {
			bs = append(bs, []byte(s))
		}
		return &onnx.AttributeProto{Name: a.name, Strings: bs, Type: onnx.AttributeProto_STRINGS}
	case "int":
		return &onnx.AttributeProto{Name: a.name, I: *a.i, Type: onnx.AttributeProto_INT}
	case "float":
		return &onnx.AttributeProto{Name: a.name, F: *a.f, Type: onnx.AttributeProto_FLOAT}
	case "floats":
		return &onnx.AttributeProto{Name: a.name, Floats: a.floats, Type: onnx.AttributeProto_FLOATS}
	case "tensor":
		return &onnx.AttributeProto{Name: a.name, T: a.tp, Type: onnx.AttributeProto_TENSOR}
	}
	return &onnx.AttributeProto{Name: a.name, Ints: a.ints, Type: onnx.AttributeProto_INTS}
}
func f32bits(x float32) string {
	if payloadAsIntegers { // integer-valued attribute floats are printed by value, like the payloads
		return zlit(int64(x))
	}
	if x != x {
		return qnan32
	}
	return fmt.Sprint(math.Float32bits(x))
}
func (a attr) gallina() string {
	switch a.kind {
	case "str":
		return fmt.Sprintf("AStr \"%s\" \"%s\"", a.name, *a.s)
	case "strs":
		q := make([]string, len(a.strs))
		for i, s := range a.strs {
			q[i] = "\"" + s + "\""
		}
		return fmt.Sprintf("AStrs \"%s\" [%s]", a.name, strings.Join(q, ";"))
	case "int":
		return fmt.Sprintf("AInt \"%s\" %s", a.name, zlit(*a.i))
	case "float":
		return fmt.Sprintf("AFloat \"%s\" %s", a.name, f32bits(*a.f))
	case "floats":
		q := make([]string, len(a.floats))
		for i, x := range a.floats {
			q[i] = f32bits(x)
		}
		return fmt.Sprintf("AFloats \"%s\" [%s]", a.name, strings.Join(q, ";"))
	case "tensor":
		return fmt.Sprintf("ATensor \"%s\" %s", a.name, tvalBare(a.t))
	}
	return fmt.Sprintf("AInts \"%s\" %s", a.name, zs(a.ints))
}

// ---- classification of errors into the kinds the properties name ----
func ekind(err error) string {
	var ie *ops.InputError
	switch {
	case errors.Is(err, ops.ErrUnsupportedOperator):
		return "EUnsupportedOp"
	case errors.Is(err, ops.ErrUnsupportedOpsetVersion):
		return "EUnsupportedOpset"
	case errors.As(err, &ie):
		return "EInput"
	}
	return "EOther"
}

// the output names of the node under test (LSTM reads how many results are asked for)
var defaultNodeOutputs = []string{"y"} // nodes of real graphs name their outputs; a name is all an output-name-keyed memo needs
var nodeOutputs = defaultNodeOutputs

// run one operator the way Model.applyOp does, under recover; the observed outcome as Gallina
func observe(op string, attrs []attr, ins []tensor.Tensor) (obs string) {
	defer func() {
		if r := recover(); r != nil {
			obs = "OPanic"
		}
	}()
	o, err := opset13.GetOperator(op)
	if err != nil {
		return "(OErr " + ekind(err) + ")"
	}
	var ap []*onnx.AttributeProto
	for _, a := range attrs {
		ap = append(ap, a.proto())
	}
	if err := o.Init(&onnx.NodeProto{Attribute: ap, Output: nodeOutputs}); err != nil {
		return "(OErr " + ekind(err) + ")"
	}
	v, err := o.ValidateInputs(ins)
	if err != nil {
		return "(OErr " + ekind(err) + ")"
	}
	out, err := o.Apply(v)
	if err != nil {
		return "(OErr " + ekind(err) + ")"
	}
	parts := make([]string, len(out))
	for i, t := range out {
		parts[i] = tval(t)
	}
	return "(OOk [" + strings.Join(parts, ";") + "])"
}

func tvals(ts []tensor.Tensor) string {
	p := make([]string, len(ts))
	for i, t := range ts {
		p[i] = func() (s string) {
			defer func() {
				if r := recover(); r != nil {
					s = "None" // the tensor was left in a state that cannot even be read
				}
			}()
			return tval(t)
		}()
	}
	return "[" + strings.Join(p, ";") + "]"
}

// emitOp runs one operator case and writes it. mkIns must build fresh tensors on every call:
// one set is run, a pristine one is printed as the input, the run one is printed as "after".
func attrGallinas(attrs []attr) []string {
	var out []string
	for _, a := range attrs {
		out = append(out, a.gallina())
	}
	return out
}

func emitOp(cw *caseWriter, op string, attrs []attr, mkIns func() []tensor.Tensor) string {
	ins := mkIns()
	lastCaseDesc = clip(op+" "+fmt.Sprint(attrGallinas(attrs))+" on "+tvals(ins), 600)
	obs := observe(op, attrs, ins)
	sideObservations(op, attrs, mkIns, obs, ins)
	return writeOpCase(cw, op, attrs, mkIns(), obs, ins)
}

// Side observations made on every operator case of every stream:
//   - effects (C02): the input tensors after the call must be what they were before it;
//   - instance reuse: ONE operator instance applied first to the previous case of the same operator
//     and attributes and then to this one must behave like a fresh instance (Apply must not leave
//     state behind that changes a later Apply).
var effectsAll = goOnlyResult{Stream: "effects_all_streams", Rule: "every operator case generated by the operator-level streams (C03, C04, C05, C07, C08, C09, C10, C11, C06 generators): deep snapshot (dtype, shape, payload bits) of every input after Init/ValidateInputs/Apply equals the snapshot before", Violations: []string{}}
var reuseAll = goOnlyResult{Stream: "instance_reuse", Rule: "one operator instance (one Init) applied to the previous case's inputs and then to this case's inputs returns what a fresh instance returns for this case", Violations: []string{}}
var refillAll = goOnlyResult{Stream: "input_buffer_refill", Rule: "the same input tensor OBJECTS are used twice with different contents: a fresh operator instance is applied to them, every input's backing array is then rotated by one element in place, and a fresh instance is applied again; the result must be what a fresh instance returns on fresh tensors holding the rotated data (nothing may be remembered per tensor identity, per name or per package)", Violations: []string{}}
var sizeAll = goOnlyResult{Stream: "size_independence", Rule: "elementwise operators (unary, Cast, binary and PRelu on operands of one shape) applied to LARGE tensors -- the small case's data tiled to 4099, 8209 and 16411 elements (primes: no block size divides them), as a vector and as a matrix with a prime number of columns, under GOMAXPROCS = default, 3 and 7 -- must return, bit for bit, the small case's result tiled in the same way (an elementwise function has no size-dependent path)", Violations: []string{}}
var sizeSeen = map[string]int{}
var elementwiseOps = map[string]bool{"Abs": true, "Relu": true, "PRelu": true, "Sigmoid": true, "Tanh": true, "Sin": true, "Cos": true, "Tan": true, "Asin": true, "Acos": true, "Atan": true, "Sinh": true, "Cosh": true, "Asinh": true, "Acosh": true, "Atanh": true, "Not": true, "Cast": true,
	"Add": true, "Sub": true, "Mul": true, "Div": true, "And": true, "Or": true, "Xor": true, "Equal": true, "Greater": true, "Less": true, "GreaterOrEqual": true, "LessOrEqual": true}
var lastIns = map[string]func() []tensor.Tensor{}

func tileTo(t tensor.Tensor, n int, shape []int) tensor.Tensor {
	v := reflect.ValueOf(t.Data())
	m := v.Len()
	d := reflect.MakeSlice(v.Type(), n, n)
	for i := 0; i < n; i++ {
		d.Index(i).Set(v.Index(i % m))
	}
	return tensor.New(tensor.WithShape(shape...), tensor.WithBacking(d.Interface()))
}

// sizeObservation: only for cases whose non-nil inputs all have one non-scalar shape and whose small
// result is one tensor of that shape; at most 12 cases per operator and attribute list
func sizeObservation(op string, attrs []attr, mkIns func() []tensor.Tensor) {
	small := mkIns()
	var shape0 []int
	for _, t := range small {
		if t == nil {
			continue
		}
		if len(t.Shape()) == 0 || reflect.ValueOf(t.Data()).Kind() != reflect.Slice {
			return
		}
		if shape0 == nil {
			shape0 = t.Shape().Clone()
		} else if !t.Shape().Eq(tensor.Shape(shape0)) || len(t.Shape()) != len(shape0) {
			return
		}
	}
	if shape0 == nil || numel(shape0) < 2 {
		return
	}
	ap := make([]string, len(attrs))
	for i, x := range attrs {
		ap[i] = x.gallina()
	}
	key := op + "|" + strings.Join(ap, ";")
	if sizeSeen[key] >= 12 {
		return
	}
	run := func(ins []tensor.Tensor) (out tensor.Tensor, obs string) {
		defer func() {
			if r := recover(); r != nil {
				out, obs = nil, "OPanic"
			}
		}()
		o, err := opset13.GetOperator(op)
		if err != nil {
			return nil, "OErr"
		}
		var aps []*onnx.AttributeProto
		for _, a := range attrs {
			aps = append(aps, a.proto())
		}
		if err := o.Init(&onnx.NodeProto{Attribute: aps, Output: nodeOutputs}); err != nil {
			return nil, "OErr"
		}
		v, err := o.ValidateInputs(ins)
		if err != nil {
			return nil, "OErr"
		}
		res, err := o.Apply(v)
		if err != nil || len(res) != 1 {
			return nil, "OErr"
		}
		return res[0], "OOk"
	}
	sres, sobs := run(small)
	if sobs != "OOk" || sres == nil || len(sres.Shape()) != len(shape0) || !sres.Shape().Eq(tensor.Shape(shape0)) || reflect.ValueOf(sres.Data()).Kind() != reflect.Slice {
		return
	}
	sizeSeen[key]++
	for _, n := range []int{4099, 8209, 16411} {
		for _, shp := range [][]int{{n}, {n / 71, 71}} {
			nn := numel(shp)
			want := tval(tileTo(sres, nn, shp))
			for _, procs := range []int{0, 3, 7} {
				big := make([]tensor.Tensor, len(small))
				for i, t := range mkIns() {
					if t != nil {
						big[i] = tileTo(t, nn, shp)
					}
				}
				old := 0
				if procs > 0 {
					old = runtime.GOMAXPROCS(procs)
				}
				bres, bobs := run(big)
				if procs > 0 {
					runtime.GOMAXPROCS(old)
				}
				sizeAll.N++
				got := bobs
				if bres != nil {
					got = tval(bres)
				}
				if got != want && len(sizeAll.Violations) < 10 {
					k := 0
					for k < len(got) && k < len(want) && got[k] == want[k] {
						k++
					}
					sizeAll.Violations = append(sizeAll.Violations, fmt.Sprintf("%s [%s] on %d elements of shape %v (the data of %s tiled), GOMAXPROCS %d: result differs from the tiled small result from character %d on: got ...%s want ...%s", op, strings.Join(ap, ";"), nn, shp, clip(tvals(small), 200), procs, k, clip(got[maxInt(0, k-20):], 120), clip(want[maxInt(0, k-20):], 120)))
				}
			}
		}
	}
}

var orderAll = goOnlyResult{Stream: "element_order_independence", Rule: "elementwise operators (unary, Cast, binary and PRelu on operands of one shape) map every element on its own: the same case with the elements of every operand in REVERSED order must return, bit for bit, the reversed result (nothing may be carried from one element to the next)", Violations: []string{}}

func reversed(t tensor.Tensor) tensor.Tensor {
	v := reflect.ValueOf(t.Data())
	n := v.Len()
	d := reflect.MakeSlice(v.Type(), n, n)
	for i := 0; i < n; i++ {
		d.Index(i).Set(v.Index(n - 1 - i))
	}
	return tensor.New(tensor.WithShape(t.Shape().Clone()...), tensor.WithBacking(d.Interface()))
}

// orderObservation: the conditions of sizeObservation (all operands of one non-scalar shape, one result of that shape)
func orderObservation(op string, attrs []attr, mkIns func() []tensor.Tensor) {
	ins := mkIns()
	var shape0 []int
	for _, t := range ins {
		if t == nil {
			continue
		}
		if len(t.Shape()) == 0 || reflect.ValueOf(t.Data()).Kind() != reflect.Slice {
			return
		}
		if shape0 == nil {
			shape0 = t.Shape().Clone()
		} else if !t.Shape().Eq(tensor.Shape(shape0)) || len(t.Shape()) != len(shape0) {
			return
		}
	}
	if shape0 == nil || numel(shape0) < 2 {
		return
	}
	run := func(ins []tensor.Tensor) (out tensor.Tensor) {
		defer func() {
			if r := recover(); r != nil {
				out = nil
			}
		}()
		o, err := opset13.GetOperator(op)
		if err != nil {
			return nil
		}
		var aps []*onnx.AttributeProto
		for _, a := range attrs {
			aps = append(aps, a.proto())
		}
		if err := o.Init(&onnx.NodeProto{Attribute: aps, Output: nodeOutputs}); err != nil {
			return nil
		}
		v, err := o.ValidateInputs(ins)
		if err != nil {
			return nil
		}
		res, err := o.Apply(v)
		if err != nil || len(res) != 1 {
			return nil
		}
		return res[0]
	}
	res := run(ins)
	if res == nil || len(res.Shape()) != len(shape0) || !res.Shape().Eq(tensor.Shape(shape0)) || reflect.ValueOf(res.Data()).Kind() != reflect.Slice {
		return
	}
	rev := make([]tensor.Tensor, len(ins))
	for i, t := range mkIns() {
		if t != nil {
			rev[i] = reversed(t)
		}
	}
	orderAll.N++
	rres := run(rev)
	got := "no result"
	if rres != nil && reflect.ValueOf(rres.Data()).Kind() == reflect.Slice && rres.Shape().Eq(tensor.Shape(shape0)) {
		got = tval(reversed(rres))
	}
	if want := tval(res); got != want && len(orderAll.Violations) < 10 {
		ap := make([]string, len(attrs))
		for i, x := range attrs {
			ap[i] = x.gallina()
		}
		orderAll.Violations = append(orderAll.Violations, fmt.Sprintf("%s [%s] on %s: with every operand's elements in reversed order the (re-reversed) result is %s, in the given order it is %s", op, strings.Join(ap, ";"), clip(tvals(mkIns()), 300), clip(got, 300), clip(want, 300)))
	}
}

func maxInt(a, b int) int {
	if a > b {
		return a
	}
	return b
}

var attrOrderAll = goOnlyResult{Stream: "attribute_order", Rule: "a node's attributes are a set keyed by name: the same case with its attribute list reversed (only when the names are distinct) must have the same outcome -- in particular an attribute that makes Init refuse the node must do so wherever it stands", Violations: []string{}}
var aliasAll = goOnlyResult{Stream: "aliased_operands", Rule: "when the first two inputs have one element type and shape: passing the SAME tensor object for both must give what passing the first input and a separate copy of it gives", Violations: []string{}}

var determAll = goOnlyResult{Stream: "determinism", Rule: "the same case evaluated three more times on fresh operator instances and fresh tensors gives the same outcome every time (nothing may depend on map iteration order, on scheduling or on what earlier calls left behind)", Violations: []string{}}

func determinismObservation(op string, attrs []attr, mkIns func() []tensor.Tensor, obs string) {
	for i := 0; i < 3; i++ {
		determAll.N++
		if got := observe(op, attrs, mkIns()); got != obs {
			if len(determAll.Violations) < 10 {
				ap := make([]string, len(attrs))
				for i, x := range attrs {
					ap[i] = x.gallina()
				}
				determAll.Violations = append(determAll.Violations, fmt.Sprintf("%s [%s] on %s: evaluation %d gives %s, the first gave %s", op, strings.Join(ap, ";"), clip(tvals(mkIns()), 300), i+2, clip(got, 300), clip(obs, 300)))
			}
			return
		}
	}
}

var runAll = goOnlyResult{Stream: "through_run", Rule: "a node in a graph computes what its operator computes: the case as a single-node model (every input a fed graph input declared with dynamic dimensions, the node's outputs the graph outputs), loaded from bytes and Run, gives bit for bit the tensors of the operator API -- and an error where the operator API refuses (the first six cases of every operator and attribute list, one in four afterwards)", Violations: []string{}}
var runSeen = map[string]int{}
var runCounter = 0

func throughRunObservation(op string, attrs []attr, mkIns func() []tensor.Tensor, obs string) {
	if obs == "OPanic" {
		return
	}
	for _, n := range nodeOutputs {
		if n == "" {
			return
		}
	}
	names := make([]string, len(attrs))
	var ap []*onnx.AttributeProto
	for i, a := range attrs {
		names[i] = a.name
		ap = append(ap, a.proto())
	}
	key := op + "|" + strings.Join(names, ";")
	runSeen[key]++
	if runSeen[key] > 6 {
		runCounter++
		if runCounter%4 != 0 {
			return
		}
	}
	// the operator API, tensors kept
	var want []tensor.Tensor
	wantKind := func() (k string) {
		defer func() {
			if r := recover(); r != nil {
				k = "panic"
			}
		}()
		o, err := opset13.GetOperator(op)
		if err != nil {
			return "error"
		}
		if err := o.Init(&onnx.NodeProto{Attribute: ap, Output: nodeOutputs}); err != nil {
			return "error"
		}
		v, err := o.ValidateInputs(mkIns())
		if err != nil {
			return "error"
		}
		out, err := o.Apply(v)
		if err != nil {
			return "error"
		}
		want = out
		return "ok"
	}()
	if wantKind == "panic" || (wantKind == "ok" && len(want) < len(nodeOutputs)) {
		return
	}
	fm := func() (m *fxModel) {
		defer func() {
			if r := recover(); r != nil {
				m = nil
			}
		}()
		return buildFxModelD(op, fixture{attrs: ap, outputs: nodeOutputs, inputs: mkIns}, len(mkIns()), false)
	}()
	if fm == nil {
		return
	}
	runAll.N++
	got := ""
	m, err := gonnx.NewModelFromBytes(fm.bytes)
	if err != nil {
		got = "the model does not load: " + err.Error()
		if wantKind == "error" {
			got = ""
		}
	} else {
		out, err, pan := runRec(m, fm.mkInputs())
		switch {
		case pan:
			got = fmt.Sprintf("Run panics: %v", err)
		case err != nil && wantKind == "ok":
			got = fmt.Sprintf("Run fails (%v) although the operator API computes %s", err, clip(tvals(want), 200))
		case err == nil && wantKind == "error":
			got = "Run succeeds although the operator API refuses the case"
		case err == nil:
			for i, n := range fm.outNames {
				if out[n] == nil || tval(out[n]) != tval(want[i]) {
					g := "nothing"
					if out[n] != nil {
						g = tval(out[n])
					}
					got = fmt.Sprintf("output %s of Run is %s, the operator API gives %s", n, clip(g, 200), clip(tval(want[i]), 200))
					break
				}
			}
		}
	}
	if got != "" && len(runAll.Violations) < 10 {
		ag := make([]string, len(attrs))
		for i, x := range attrs {
			ag[i] = x.gallina()
		}
		runAll.Violations = append(runAll.Violations, fmt.Sprintf("%s [%s] on %s as a single-node model: %s", op, strings.Join(ag, ";"), clip(tvals(mkIns()), 300), got))
	}
}

var spareAll = goOnlyResult{Stream: "spare_capacity", Rule: "the input list is what lies within its LENGTH: the same case handed over as a slice with spare capacity whose hidden slots still hold tensors of an earlier call (an int64 vector, a float32 matrix) must have the same outcome -- omitted optional inputs are absent, not whatever lies behind the end of the list", Violations: []string{}}

func spareCapacityObservation(op string, attrs []attr, mkIns func() []tensor.Tensor, obs string) {
	ins := mkIns()
	buf := make([]tensor.Tensor, len(ins), len(ins)+3)
	copy(buf, ins)
	hidden := buf[:cap(buf)]
	hidden[len(ins)] = tensor.New(tensor.WithShape(1), tensor.WithBacking([]int64{0}))
	hidden[len(ins)+1] = tensor.New(tensor.WithShape(1, 1), tensor.WithBacking([]float32{7}))
	hidden[len(ins)+2] = tensor.New(tensor.WithShape(2), tensor.WithBacking([]int64{1, -1}))
	spareAll.N++
	if got := observe(op, attrs, buf); got != obs && len(spareAll.Violations) < 10 {
		ap := make([]string, len(attrs))
		for i, x := range attrs {
			ap[i] = x.gallina()
		}
		spareAll.Violations = append(spareAll.Violations, fmt.Sprintf("%s [%s] on %s: as a slice with stale tensors behind its length the outcome is %s, as an exact slice it is %s", op, strings.Join(ap, ";"), clip(tvals(mkIns()), 300), clip(got, 300), clip(obs, 300)))
	}
}

func attrOrderObservation(op string, attrs []attr, mkIns func() []tensor.Tensor, obs string) {
	if len(attrs) < 2 {
		return
	}
	seen := map[string]bool{}
	for _, a := range attrs {
		if seen[a.name] {
			return
		}
		seen[a.name] = true
	}
	rev := make([]attr, len(attrs))
	for i, a := range attrs {
		rev[len(attrs)-1-i] = a
	}
	attrOrderAll.N++
	if got := observe(op, rev, mkIns()); got != obs && len(attrOrderAll.Violations) < 10 {
		ap := make([]string, len(attrs))
		for i, x := range attrs {
			ap[i] = x.gallina()
		}
		attrOrderAll.Violations = append(attrOrderAll.Violations, fmt.Sprintf("%s [%s] on %s gives %s, with the attribute list reversed %s", op, strings.Join(ap, ";"), clip(tvals(mkIns()), 300), clip(obs, 300), clip(got, 300)))
	}
}

func aliasObservation(op string, attrs []attr, mkIns func() []tensor.Tensor) {
	a := mkIns()
	if len(a) < 2 || a[0] == nil || a[1] == nil || a[0].Dtype() != a[1].Dtype() || len(a[0].Shape()) != len(a[1].Shape()) || !a[0].Shape().Eq(a[1].Shape()) {
		return
	}
	b := mkIns()
	b[1] = b[0].Clone().(tensor.Tensor)
	want := observe(op, attrs, b)
	a[1] = a[0]
	got := observe(op, attrs, a)
	aliasAll.N++
	if got != want && len(aliasAll.Violations) < 10 {
		ap := make([]string, len(attrs))
		for i, x := range attrs {
			ap[i] = x.gallina()
		}
		aliasAll.Violations = append(aliasAll.Violations, fmt.Sprintf("%s [%s]: the same tensor object %s passed as both inputs gives %s, the tensor and a copy of it give %s", op, strings.Join(ap, ";"), clip(tvals(b[:1]), 300), clip(got, 300), clip(want, 300)))
	}
}

var viewAll = goOnlyResult{Stream: "view_inputs", Rule: "every input of rank >= 1 handed over as a NON-CONTIGUOUS view with the same logical contents (a stepped slice of a tensor whose last axis is interleaved with other values): the outcome must be the one for contiguous tensors", Violations: []string{}, Known: map[string]int{}}

// a stepped view with the logical contents of t (nil when t cannot be viewed this way)
func asView(t tensor.Tensor) (v tensor.Tensor) {
	defer func() {
		if r := recover(); r != nil {
			v = nil
		}
	}()
	sh := t.Shape()
	if len(sh) == 0 {
		return nil
	}
	src := reflect.ValueOf(t.Data())
	if src.Kind() != reflect.Slice {
		return nil
	}
	last := sh[len(sh)-1]
	n := src.Len()
	big := reflect.MakeSlice(src.Type(), 2*n, 2*n)
	for i := 0; i < n; i++ {
		big.Index(2 * i).Set(src.Index(i))
		big.Index(2*i + 1).Set(src.Index((i + 1) % n)) // foreign elements in between
	}
	bs := append([]int{}, sh...)
	bs[len(bs)-1] = 2 * last
	bt := tensor.New(tensor.WithShape(bs...), tensor.WithBacking(big.Interface()))
	sl := make([]tensor.Slice, len(sh))
	for i := range sl {
		sl[i] = nil
	}
	sl[len(sh)-1] = ops.NewSlicer(0, 2*last, 2)
	out, err := bt.Slice(sl...)
	if err != nil {
		return nil
	}
	return out
}

func viewObservation(op string, attrs []attr, mkIns func() []tensor.Tensor, obs string) {
	ins := mkIns()
	any := false
	for i, t := range ins {
		if t == nil {
			continue
		}
		if v := asView(t); v != nil && tval(v) == tval(t) {
			ins[i] = v
			any = true
		}
	}
	if !any {
		return
	}
	viewAll.N++
	if got := observe(op, attrs, ins); got != obs {
		viewAll.Known[op]++
		if len(viewAll.Violations) < 40 {
			ap := make([]string, len(attrs))
			for i, x := range attrs {
				ap[i] = x.gallina()
			}
			viewAll.Violations = append(viewAll.Violations, fmt.Sprintf("%s [%s]: with view inputs %s, contiguous %s (inputs %s)", op, strings.Join(ap, ";"), clip(got, 200), clip(obs, 200), clip(tvals(mkIns()), 200)))
		}
	}
}

// rotate every input's backing array by one element, in place (scalars and nil inputs are left alone)
func rotateInPlace(ts []tensor.Tensor) {
	for _, t := range ts {
		if t == nil {
			continue
		}
		func() {
			defer func() { recover() }()
			v := reflect.ValueOf(t.Data())
			if v.Kind() != reflect.Slice || v.Len() < 2 {
				return
			}
			first := reflect.New(v.Type().Elem()).Elem()
			first.Set(v.Index(0))
			for i := 0; i+1 < v.Len(); i++ {
				v.Index(i).Set(v.Index(i + 1))
			}
			v.Index(v.Len() - 1).Set(first)
		}()
	}
}

func refillObservation(op string, attrs []attr, mkIns func() []tensor.Tensor) {
	fresh := mkIns()
	rotateInPlace(fresh)
	shown := tvals(fresh)
	want := observe(op, attrs, fresh)
	objs := mkIns()
	observe(op, attrs, objs)
	if tvals(objs) != tvals(mkIns()) {
		return // the call changed its inputs: that is the effects observation's business
	}
	rotateInPlace(objs)
	got := observe(op, attrs, objs)
	refillAll.N++
	if got != want && len(refillAll.Violations) < 10 {
		ap := make([]string, len(attrs))
		for i, x := range attrs {
			ap[i] = x.gallina()
		}
		refillAll.Violations = append(refillAll.Violations, fmt.Sprintf("%s [%s]: tensors that were used once and then refilled in place with %s give %s, fresh tensors with the same contents give %s", op, strings.Join(ap, ";"), clip(shown, 300), clip(got, 300), clip(want, 300)))
	}
}

// Conv fills its attribute fields (dilations, kernel_shape, pads, strides) from its FIRST input when
// they are absent; an instance re-used on another geometry is something Model.Run never does (one
// operator per node per Run, C15), so that is not judged here.
var reuseSkip = map[string]bool{"Conv": true}

// set while a Conv case with exactly the geometry of the previous one is emitted
var convReuseTwin = false

func sideObservations(op string, attrs []attr, mkIns func() []tensor.Tensor, obs string, after []tensor.Tensor) {
	effectsAll.N++
	if a, b := tvals(mkIns()), tvals(after); a != b && len(effectsAll.Violations) < 10 {
		ap := make([]string, len(attrs))
		for i, x := range attrs {
			ap[i] = x.gallina()
		}
		effectsAll.Violations = append(effectsAll.Violations, fmt.Sprintf("%s [%s]: inputs changed by the call: before %s after %s", op, strings.Join(ap, ";"), clip(a, 400), clip(b, 400)))
	}
	refillObservation(op, attrs, mkIns)
	determinismObservation(op, attrs, mkIns, obs)
	spareCapacityObservation(op, attrs, mkIns, obs)
	throughRunObservation(op, attrs, mkIns, obs)
	attrOrderObservation(op, attrs, mkIns, obs)
	aliasObservation(op, attrs, mkIns)
	if os.Getenv("VERIF_VIEWS") != "" {
		viewObservation(op, attrs, mkIns, obs)
	}
	if elementwiseOps[op] {
		sizeObservation(op, attrs, mkIns)
		orderObservation(op, attrs, mkIns)
	}
	if reuseSkip[op] && !convReuseTwin {
		if op == "Conv" {
			ap := make([]string, len(attrs))
			for i, x := range attrs {
				ap[i] = x.gallina()
			}
			lastIns[op+"|"+strings.Join(ap, ";")] = mkIns // remembered for a twin case of the same geometry
		}
		return
	}
	ap := make([]string, len(attrs))
	for i, x := range attrs {
		ap[i] = x.gallina()
	}
	key := op + "|" + strings.Join(ap, ";")
	// the most recent earlier case of this operator and attributes for EACH "signature" of inputs
	// (number of inputs, rank of the first input): an instance that first saw inputs of another
	// rank or count must still behave like a fresh one
	sig := func(ts []tensor.Tensor) string {
		r := -1
		if len(ts) > 0 && ts[0] != nil {
			r = len(ts[0].Shape())
		}
		return fmt.Sprintf("%d/%d", len(ts), r)
	}
	if lastBySig[key] == nil {
		lastBySig[key] = map[string]func() []tensor.Tensor{}
	}
	prevs := lastBySig[key]
	if reuseSkip[op] { // a twin case: only the immediately preceding case (same geometry)
		prevs = map[string]func() []tensor.Tensor{"twin": lastIns[key]}
	}
	for _, prev := range prevs {
		reuseAll.N++
		if obs2 := observeReused(op, attrs, prev(), mkIns()); obs2 != obs && len(reuseAll.Violations) < 10 {
			reuseAll.Violations = append(reuseAll.Violations, fmt.Sprintf("%s [%s]: an instance that was applied to %s before returns %s for inputs %s, a fresh instance returns %s", op, strings.Join(ap, ";"), clip(tvals(prev()), 300), clip(obs2, 300), clip(tvals(mkIns()), 300), clip(obs, 300)))
		}
	}
	lastBySig[key][sig(mkIns())] = mkIns
	lastIns[key] = mkIns
}

var lastBySig = map[string]map[string]func() []tensor.Tensor{}

func clip(s string, n int) string {
	if len(s) > n {
		return s[:n] + " ..."
	}
	return s
}

func observeReused(op string, attrs []attr, first, second []tensor.Tensor) (obs string) {
	defer func() {
		if r := recover(); r != nil {
			obs = "OPanic"
		}
	}()
	o, err := opset13.GetOperator(op)
	if err != nil {
		return "(OErr " + ekind(err) + ")"
	}
	var ap []*onnx.AttributeProto
	for _, a := range attrs {
		ap = append(ap, a.proto())
	}
	if err := o.Init(&onnx.NodeProto{Attribute: ap, Output: nodeOutputs}); err != nil {
		return "(OErr " + ekind(err) + ")"
	}
	func() {
		defer func() { recover() }()
		if v, err := o.ValidateInputs(first); err == nil {
			o.Apply(v)
		}
	}()
	v, err := o.ValidateInputs(second)
	if err != nil {
		return "(OErr " + ekind(err) + ")"
	}
	out, err := o.Apply(v)
	if err != nil {
		return "(OErr " + ekind(err) + ")"
	}
	parts := make([]string, len(out))
	for i, t := range out {
		parts[i] = tval(t)
	}
	return "(OOk [" + strings.Join(parts, ";") + "])"
}

func writeOpCase(cw *caseWriter, op string, attrs []attr, shown []tensor.Tensor, obs string, after []tensor.Tensor) string {
	ap := make([]string, len(attrs))
	for i, a := range attrs {
		ap[i] = a.gallina()
	}
	cw.write(fmt.Sprintf("  {| oc_op := \"%s\"; oc_attrs := [%s]; oc_ins := %s; oc_obs := %s; oc_after := %s |}",
		op, strings.Join(ap, ";"), tvals(shown), obs, tvals(after)))
	count("op", op)
	o := strings.Trim(obs, "()")
	if i := strings.IndexAny(o, " ["); i > 0 {
		o = o[:i]
	}
	count("observed", o)
	return obs
}

func opHeader(check string) string {
	return "From Coq Require Import List String ZArith.\nFrom V Require Import DType Case " + check + ".\nImport ListNotations.\nOpen Scope string_scope.\nOpen Scope Z_scope.\nDefinition cases : list opcase := ["
}

const opFooter = "].\nDefinition verdicts := Eval vm_compute in map verdict cases.\nPrint verdicts.\nDefinition kinds := Eval vm_compute in map kind cases.\nPrint kinds."

func pick[T any](r *rand.Rand, xs []T) T { return xs[r.Intn(len(xs))] }
