package main

import (
	"syscall"
	"os/exec"
	"encoding/json"
	"bytes"
	"errors"
	"time"
	"math"
	"fmt"
	"math/rand"
	"os"
	"path/filepath"
	"strings"

	"github.com/advancedclimatesystems/gonnx"
	"github.com/advancedclimatesystems/gonnx/onnx"
	"github.com/advancedclimatesystems/gonnx/ops"
	"google.golang.org/protobuf/proto"
	"gorgonia.org/tensor"
)

// Run under a deadline: a Run that never returns (a leaked lock, a deadlock) is an outcome, not a broken check
func runWithDeadline(m *gonnx.Model, in gonnx.Tensors, d time.Duration) (out gonnx.Tensors, err error, hung bool) {
	type res struct {
		out gonnx.Tensors
		err error
	}
	ch := make(chan res, 1)
	go func() {
		defer func() {
			if r := recover(); r != nil {
				ch <- res{nil, fmt.Errorf("panic: %v", r)}
			}
		}()
		o, e := m.Run(in)
		ch <- res{o, e}
	}()
	select {
	case r := <-ch:
		return r.out, r.err, false
	case <-time.After(d):
		return nil, nil, true
	}
}

func loadObs(b []byte) (obs string) {
	defer func() {
		if r := recover(); r != nil {
			obs = "OPanic"
		}
	}()
	_, err := gonnx.NewModelFromBytes(b)
	if err != nil {
		return "(OErr " + ekind(err) + ")"
	}
	return "(OOk [])"
}

func lcaseGallina(inits []*onnx.TensorProto, opsets []int64, obs string) string {
	var ts []string
	for _, tp := range inits {
		ts = append(ts, tprotoGallina(tp))
	}
	return fmt.Sprintf("  {| lc_inits := [%s]; lc_opsets := %s; lc_obs := %s |}", strings.Join(ts, ";"), zs(opsets), obs)
}

func randomInit(r *rand.Rand, malformed bool) *onnx.TensorProto {
	ti := ttypes[r.Intn(len(ttypes))]
	s := shapesUpToRank(0, 3, []int{1, 2, 3})[r.Intn(40)]
	n := numel(s)
	dims := make([]int64, len(s))
	for i, d := range s {
		dims[i] = int64(d)
	}
	vals := patterns(r, ti, n)
	tp := &onnx.TensorProto{DataType: ti.code, Dims: dims, Name: fmt.Sprintf("w%d", r.Intn(1000))}
	if r.Intn(2) == 0 {
		setTyped(tp, ti, vals)
	} else {
		tp.RawData = rawOf(ti, vals)
	}
	if malformed {
		switch r.Intn(5) {
		case 0:
			tp.Dims = append(tp.Dims, 2)
		case 1:
			if len(tp.Dims) > 0 {
				tp.Dims[0] = -tp.Dims[0]
			} else {
				tp.Dims = []int64{0}
			}
		case 2:
			if len(tp.RawData) > 0 {
				tp.RawData = tp.RawData[:len(tp.RawData)-1]
			} else {
				tp.Dims = append(tp.Dims, 3)
			}
		case 3:
			tp.DataType = []int32{8, 10, 14, 15, 16, 99}[r.Intn(6)]
		default:
			tp.Dims = append([]int64{0}, tp.Dims...)
		}
	}
	return tp
}

func genC18(dir, tier string, seed int64) {
	exactNaN = true
	defer func() { exactNaN = false }()
	r := rand.New(rand.NewSource(seed))
	hdr := "From Coq Require Import List String ZArith.\nFrom V Require Import DType Case Decode CheckC18.\nFrom Gen Require Import OpTable.\nImport ListNotations.\nOpen Scope Z_scope.\nDefinition cases : list lcase := ["
	ftr := "].\nDefinition verdicts := Eval vm_compute in map (verdict supported_opsets) cases.\nPrint verdicts.\nDefinition kinds := Eval vm_compute in map (kind supported_opsets) cases.\nPrint kinds."
	nStruct := 500
	if tier == "thorough" {
		nStruct = 20000
	}
	cw := newCaseWriter(dir, "C18_load", hdr, ftr,
		"generated model structures: 0..3 initializers (C12's generator: 11 types, typed or raw, rank 0..3; 1 model in 3 carries one malformed initializer: extra/zero/negative dim, truncated raw data, unsupported type) x opset import lists ([13], [12], [14], [], [0], [-5], [13,1], [1,13], [13,14], [13,13], [9,11,13], [2^40], lists with the int64 extremes and versions more than 2^63 apart, random 1..3 versions in -2..20 over several domains), marshalled and loaded with NewModelFromBytes", false, 250)
	opsetLists := [][]int64{{13}, {12}, {14}, {}, {0}, {-5}, {13, 1}, {1, 13}, {13, 14}, {13, 13}, {9, 11, 13}, {1 << 40}, {13}, {13}, {13},
		// versions far apart (a difference that does not fit 64 bits), extremes, the supported one last / first / in the middle
		{math.MaxInt64, -2, 13}, {-2, math.MaxInt64, 13}, {1 << 62, -(1 << 62) - 1, 13}, {13, math.MaxInt64}, {math.MinInt64, 13}, {13, math.MinInt64, 13},
		{math.MaxInt64}, {math.MinInt64}, {13, -1 << 63, 1 << 62}, {14, 13}, {13, 12, 14, 13}}
	for i := 0; i < nStruct; i++ {
		var inits []*onnx.TensorProto
		nI := r.Intn(4)
		bad := -1
		if nI > 0 && r.Intn(3) == 0 {
			bad = r.Intn(nI)
		}
		for k := 0; k < nI; k++ {
			tp := randomInit(r, k == bad)
			tp.Name = fmt.Sprintf("w%d", k)
			inits = append(inits, tp)
		}
		var opsets []int64
		if r.Intn(3) == 0 {
			for k := 1 + r.Intn(3); k > 0; k-- {
				opsets = append(opsets, int64(r.Intn(23)-2))
			}
		} else {
			opsets = opsetLists[r.Intn(len(opsetLists))]
		}
		mp := &onnx.ModelProto{IrVersion: 7, Graph: &onnx.GraphProto{Initializer: inits}}
		doms := []string{"", "ai.onnx.ml", "com.example", "ai.onnx"}
		for k, v := range opsets {
			mp.OpsetImport = append(mp.OpsetImport, &onnx.OperatorSetIdProto{Version: v, Domain: doms[(k+r.Intn(2))%len(doms)]})
		}
		b, _ := proto.Marshal(mp)
		obs := loadObs(b)
		cw.write(lcaseGallina(inits, opsets, obs))
		count("opsets", fmt.Sprint(opsets))
		count("observed", strings.Fields(strings.Trim(obs, "()"))[0])
	}
	cw.close()

	// ---- unknown operator types through the REAL registry ----
	unk := goOnlyResult{Stream: "C18_unknown_operator", Rule: "real graphs x -> Abs -> <type> -> Abs through opset13.GetOperator (the node of that type at each of the three positions on the path to the output, on a side branch whose result is never read -- first or last in the node list -- and as a node without outputs; as a node whose output name is already bound by an initializer, by a tensor the caller passes, or by an earlier node; as a node that reads its own output or re-binds the name it reads): the node carrying no domain, ai.onnx, ai.onnx.ml or com.microsoft in turn; for every unregistered type string (case/affix perturbations of registered names, ONNX operators that are not implemented, odd strings) Run must fail with errors.Is(err, ops.ErrUnsupportedOperator) and return no outputs; the same graph with a registered unary type must succeed", Violations: []string{}}
	names := []string{"abs", "ABS", "Abs ", " Abs", "Abs1", "Ab", "ai.onnx.Abs", "", "Pad", "Gelu", "MaxPool", "Identity", "Exp", "Neg", "LeakyRelu", "Erf", "Softplus", "relu", "Relu6", "Tanhh", "nil", "13", "Sigmoid\x00", "Cosine"}
	stopUnknown := false
	for _, tname := range append(names, "Relu", "Tanh", "Sigmoid") {
		for pos := 0; pos < 11 && !stopUnknown; pos++ {
			if pos >= 6 && (tname == "Relu" || tname == "Tanh" || tname == "Sigmoid") {
				continue // the last three positions re-bind a name: only meaningful for a type that must be refused
			}
			if pos == 5 && (tname == "Relu" || tname == "Tanh" || tname == "Sigmoid") {
				continue // a registered operator that yields one result cannot be a node without outputs
			}
			unk.N++
			ts := []string{"Abs", "Abs", "Abs"}
			if pos < 3 {
				ts[pos] = tname
			}
			vi := func(n string) *onnx.ValueInfoProto {
				return &onnx.ValueInfoProto{Name: n, Type: &onnx.TypeProto{Value: &onnx.TypeProto_TensorType{TensorType: &onnx.TypeProto_Tensor{ElemType: 1,
					Shape: &onnx.TensorShapeProto{Dim: []*onnx.TensorShapeProto_Dimension{{Value: &onnx.TensorShapeProto_Dimension_DimValue{DimValue: 3}}}}}}}}
			}
			g := &onnx.GraphProto{Input: []*onnx.ValueInfoProto{vi("x")}, Output: []*onnx.ValueInfoProto{vi("y")},
				Node: []*onnx.NodeProto{{OpType: ts[0], Input: []string{"x"}, Output: []string{"a"}}, {OpType: ts[1], Input: []string{"a"}, Output: []string{"b"}}, {OpType: ts[2], Input: []string{"b"}, Output: []string{"y"}}}}
			// positions 3..5: the node of that type is NOT on the path to the declared output: a side
			// branch whose result nobody reads (first or last in the node list), or a node without outputs
			switch pos {
			case 3:
				g.Node = append([]*onnx.NodeProto{{OpType: tname, Input: []string{"x"}, Output: []string{"unused"}}}, g.Node...)
			case 4:
				g.Node = append(g.Node, &onnx.NodeProto{OpType: tname, Input: []string{"a"}, Output: []string{"unused"}})
			case 5:
				g.Node = append(g.Node[:1], append([]*onnx.NodeProto{{OpType: tname, Input: []string{"a"}}}, g.Node[1:]...)...)
			case 6, 7: // the node's output name is already bound: by an initializer (6), by a tensor the caller passes (7)
				g.Node[1].OpType = tname
				if pos == 6 {
					g.Initializer = append(g.Initializer, &onnx.TensorProto{Name: "b", Dims: []int64{3}, DataType: 1, FloatData: []float32{7, 8, 9}})
				}
			case 9: // the node reads its own output (a self-loop): not computable, and still an unsupported operator
				g.Node[1] = &onnx.NodeProto{OpType: tname, Input: []string{"b"}, Output: []string{"b"}}
			case 10: // the node re-binds the name it reads (x = Op(x))
				g.Node[1] = &onnx.NodeProto{OpType: tname, Input: []string{"a"}, Output: []string{"a"}}
				g.Node[2].Input = []string{"a"}
			case 8: // ... by an earlier node
				g.Node = []*onnx.NodeProto{g.Node[0], g.Node[1], {OpType: tname, Input: []string{"a"}, Output: []string{"b"}}, g.Node[2]}
			}
			extra := pos == 7
			// the node of that type carries a domain: none, the default one spelled out, the ML domain, a vendor's
			dom := []string{"", "ai.onnx", "ai.onnx.ml", "com.microsoft"}[unk.N%4]
			for _, nd := range g.Node {
				if nd.OpType == tname {
					nd.Domain = dom
				}
			}
			b, _ := proto.Marshal(&onnx.ModelProto{OpsetImport: []*onnx.OperatorSetIdProto{{Version: 13}}, Graph: g})
			func() {
				defer func() {
					if rec := recover(); rec != nil {
						unk.Violations = append(unk.Violations, fmt.Sprintf("panic running a graph with operator type %q at node %d: %v", tname, pos, rec))
					}
				}()
				m, err := gonnx.NewModelFromBytes(b)
				if err != nil {
					unk.Violations = append(unk.Violations, fmt.Sprintf("load failed for a graph with operator type %q: %v", tname, err))
					return
				}
				feed := gonnx.Tensors{"x": tensor.New(tensor.WithShape(3), tensor.WithBacking([]float32{-1, 2, -3}))}
				if extra {
					feed["b"] = tensor.New(tensor.WithShape(3), tensor.WithBacking([]float32{7, 8, 9}))
				}
				out, err, hung := runWithDeadline(m, feed, 60*time.Second)
				if hung {
					unk.Violations = append(unk.Violations, fmt.Sprintf("Run of a graph with operator type %q at node %d did not return within 60 s (the stream stops here)", tname, pos))
					stopUnknown = true
					return
				}
				registered := tname == "Relu" || tname == "Tanh" || tname == "Sigmoid"
				switch {
				case registered && (err != nil || out["y"] == nil):
					unk.Violations = append(unk.Violations, fmt.Sprintf("a graph with the registered type %q failed: %v", tname, err))
				case !registered && err == nil:
					unk.Violations = append(unk.Violations, fmt.Sprintf("a graph containing the unregistered operator type %q at node %d ran to completion (node skipped or substituted): %v", tname, pos, out["y"]))
				case !registered && !errors.Is(err, ops.ErrUnsupportedOperator):
					unk.Violations = append(unk.Violations, fmt.Sprintf("unregistered operator type %q at node %d: error is not the unsupported-operator error: %v", tname, pos, err))
				case !registered && out != nil:
					unk.Violations = append(unk.Violations, fmt.Sprintf("unregistered operator type %q: outputs returned together with the error", tname))
				}
			}()
		}
	}
	meta.GoOnly = append(meta.GoOnly, unk)

	// ---- bytes: NewModelFromBytes must never panic (in a child process, see bytesStreamC18) ----
	{
		cmd := exec.Command(os.Args[0], "-prop", "C18", "-tier", tier, "-seed", fmt.Sprint(seed), "-out", dir)
		cmd.Env = append(os.Environ(), "VGEN_CHILD=c18bytes")
		var stderr bytes.Buffer
		cmd.Stderr = &stderr
		runErr := cmd.Run()
		var cr bytesChildResult
		bs, rerr := os.ReadFile(filepath.Join(dir, "c18bytes.json"))
		if runErr != nil || rerr != nil || json.Unmarshal(bs, &cr) != nil {
			last, _ := os.ReadFile(filepath.Join(dir, "c18bytes.progress"))
			tail := stderr.String()
			if len(tail) > 600 {
				tail = tail[:600]
			}
			fz := goOnlyResult{Stream: "C18_bytes", Rule: "NewModelFromBytes in a child process", N: 1, Violations: []string{fmt.Sprintf("the process loading the models DIED (%v) while loading: %s (bytes saved as %s); stderr: %s", runErr, strings.TrimSpace(string(last)), filepath.Join(dir, "c18bytes.last.bin"), tail)}}
			meta.GoOnly = append(meta.GoOnly, fz)
		} else {
			count("bytes_kind", fmt.Sprintf("single-field mutants: %d", cr.NField))
			for k, v := range cr.Stat {
				count("bytes_outcome", k)
				meta.Distribution["bytes_outcome"][k] = v
			}
			meta.GoOnly = append(meta.GoOnly, cr.Result)
		}
	}
}

// The bytes stream runs in a CHILD process (same binary, VGEN_CHILD=c18bytes): a load that kills the
// process -- Go's unrecoverable "fatal error: out of memory" or stack overflow, which recover() cannot
// catch -- must be reported as a violation with the input that did it, not end the check. The child limits
// its address space, notes every input before loading it, and writes its result file at the end.
func bytesStreamC18(dir, tier string, seed int64, nMut, nRand int, progress func(what string, b []byte)) (goOnlyResult, map[string]int, int) {
	r := rand.New(rand.NewSource(seed ^ 0x18b7e5))
	// ---- bytes: NewModelFromBytes must never panic ----
	fz := goOnlyResult{Stream: "C18_bytes", Rule: "NewModelFromBytes under recover(): every truncation of the small sample models (and sampled truncations of ndm.onnx), seeded bit-flip / byte-substitution / splice mutants of them, arbitrary byte strings, and structured mutants (every field of every initializer and value-info perturbed, re-marshalled); a panic is a violation", Violations: []string{}, Known: map[string]int{}}
	var seeds [][]byte
	files, _ := filepath.Glob("/repo/sample_models/onnx_models/*.onnx")
	for _, f := range files {
		b, err := os.ReadFile(f)
		if err != nil {
			continue
		}
		seeds = append(seeds, b)
	}
	// plus marshalled generated models (small, with every initializer type)
	for i := 0; i < 8; i++ {
		var inits []*onnx.TensorProto
		for k := 0; k < 3; k++ {
			inits = append(inits, randomInit(r, false))
		}
		b, _ := proto.Marshal(&onnx.ModelProto{IrVersion: 7, OpsetImport: []*onnx.OperatorSetIdProto{{Version: 13}}, Graph: &onnx.GraphProto{Initializer: inits,
			Input: []*onnx.ValueInfoProto{{Name: "x"}}, Node: []*onnx.NodeProto{{OpType: "Abs", Input: []string{"x"}, Output: []string{"y"}}}}})
		seeds = append(seeds, b)
	}
	stat := map[string]int{}
	try := func(b []byte, what string) {
		progress(what, b)
		fz.N++
		o := loadObs(b)
		stat[strings.Fields(strings.Trim(o, "()"))[0]]++
		if o == "OPanic" && len(fz.Violations) < 10 {
			p := filepath.Join(dir, fmt.Sprintf("panic_%d.bin", len(fz.Violations)))
			os.WriteFile(p, b, 0o644)
			fz.Violations = append(fz.Violations, fmt.Sprintf("NewModelFromBytes panicked on %s (%d bytes, saved as %s)", what, len(b), p))
		} else if o == "OPanic" {
			fz.Violations = append(fz.Violations, "panic (further)")
		}
	}
	for si, s := range seeds {
		step := 1
		if len(s) > 5000 {
			step = len(s) / 400
		}
		for cut := 0; cut < len(s); cut += step {
			try(s[:cut], fmt.Sprintf("seed %d truncated at %d", si, cut))
		}
	}
	for i := 0; i < nMut; i++ {
		s := seeds[r.Intn(len(seeds))]
		if len(s) > 5000 {
			s = s[:2000+r.Intn(3000)]
		}
		b := append([]byte{}, s...)
		for k := 1 + r.Intn(4); k > 0 && len(b) > 0; k-- {
			p := r.Intn(len(b))
			switch r.Intn(4) {
			case 0:
				b[p] ^= 1 << uint(r.Intn(8))
			case 1:
				b[p] = byte(r.Intn(256))
			case 2:
				q := r.Intn(len(b))
				if p > q {
					p, q = q, p
				}
				b = append(b[:p], b[q:]...)
			default:
				o := seeds[r.Intn(len(seeds))]
				if len(o) > 64 {
					a := r.Intn(len(o) - 32)
					b = append(b[:p], append(append([]byte{}, o[a:a+r.Intn(32)]...), b[p:]...)...)
				}
			}
		}
		try(b, fmt.Sprintf("mutant %d", i))
	}
	for i := 0; i < nRand; i++ {
		b := make([]byte, r.Intn(200))
		r.Read(b)
		if r.Intn(2) == 0 && len(b) > 2 { // make it look like a ModelProto with a graph field
			b[0], b[1] = 0x3a, byte(len(b)-2)
		}
		try(b, fmt.Sprintf("random %d", i))
	}
	// structured mutants
	for _, s := range seeds {
		if len(s) > 5000 {
			continue
		}
		mp := &onnx.ModelProto{}
		if proto.Unmarshal(s, mp) != nil || mp.Graph == nil {
			continue
		}
		for ii := range mp.Graph.Initializer {
			for v := 0; v < 9; v++ {
				c := proto.Clone(mp).(*onnx.ModelProto)
				tp := c.Graph.Initializer[ii]
				switch v {
				case 0:
					tp.Dims = append(tp.Dims, 2)
				case 1:
					if len(tp.Dims) > 0 {
						tp.Dims[0] = 0
					}
				case 2:
					if len(tp.Dims) > 0 {
						tp.Dims[0] = -tp.Dims[0]
					}
				case 3:
					if len(tp.RawData) > 0 {
						tp.RawData = tp.RawData[:len(tp.RawData)-1]
					}
				case 4:
					tp.DataType = int32(r.Intn(22))
				case 5:
					tp.RawData = nil
					tp.FloatData = nil
				case 6:
					tp.Dims = nil
				case 7:
					tp.Dims = []int64{1 << 40, 1 << 40}
				default:
					tp.Int32Data = []int32{1, 2, 3}
				}
				b, _ := proto.Marshal(c)
				try(b, fmt.Sprintf("structured mutant of initializer %d, variant %d", ii, v))
			}
		}
		for v := 0; v < 4; v++ {
			c := proto.Clone(mp).(*onnx.ModelProto)
			switch v {
			case 0:
				c.OpsetImport = nil
			case 1:
				c.OpsetImport = append(c.OpsetImport, &onnx.OperatorSetIdProto{Version: 99})
			case 2:
				for _, in := range c.Graph.Input {
					in.Type = nil
				}
			default:
				c.Graph.Input = append(c.Graph.Input, nil)
			}
			b, _ := proto.Marshal(c)
			try(b, fmt.Sprintf("structured mutant of model fields, variant %d", v))
		}
	}
	// generic single-field mutants: EVERY field (set or unset) of EVERY message of the model tree --
	// model, opset ids, graph, nodes, attributes (incl. tensor-valued), initializers, value infos,
	// types, shapes, dimensions -- in every variant of its kind (cleared; integers 0, 1, -1, extremes;
	// every enum value and two undefined ones; strings; bytes shortened / extended / replaced; lists
	// emptied, extended by a zero element, shortened, with a duplicated or blanked element; message
	// fields cleared or replaced by an empty message)
	rich := &onnx.ModelProto{IrVersion: 7, ProducerName: "verif", OpsetImport: []*onnx.OperatorSetIdProto{{Domain: "", Version: 13}},
		Graph: &onnx.GraphProto{Name: "g",
			Initializer: []*onnx.TensorProto{
				{Name: "w", Dims: []int64{2, 2}, DataType: 1, FloatData: []float32{1, 2, 3, 4}},
				{Name: "r", Dims: []int64{3}, DataType: 7, RawData: make([]byte, 24)},
				{Name: "d", Dims: []int64{2}, DataType: 11, DoubleData: []float64{1, 2}},
				{Name: "i", DataType: 6, Int32Data: []int32{5}},
				{Name: "u", Dims: []int64{1}, DataType: 13, Uint64Data: []uint64{9}},
			},
			Input: []*onnx.ValueInfoProto{
				{Name: "x", Type: &onnx.TypeProto{Value: &onnx.TypeProto_TensorType{TensorType: &onnx.TypeProto_Tensor{ElemType: 1, Shape: &onnx.TensorShapeProto{Dim: []*onnx.TensorShapeProto_Dimension{
					{Value: &onnx.TensorShapeProto_Dimension_DimParam{DimParam: "N"}}, {Value: &onnx.TensorShapeProto_Dimension_DimValue{DimValue: 2}}, {}}}}}}},
				{Name: "w", Type: &onnx.TypeProto{Value: &onnx.TypeProto_TensorType{TensorType: &onnx.TypeProto_Tensor{ElemType: 1}}}},
			},
			Output: []*onnx.ValueInfoProto{{Name: "y"}},
			ValueInfo: []*onnx.ValueInfoProto{{Name: "c"}},
			Node: []*onnx.NodeProto{
				{Name: "n0", OpType: "Constant", Output: []string{"c"}, Attribute: []*onnx.AttributeProto{{Name: "value", Type: onnx.AttributeProto_TENSOR, T: &onnx.TensorProto{Dims: []int64{2}, DataType: 1, FloatData: []float32{1, 2}}}}},
				{Name: "n1", OpType: "MatMul", Input: []string{"x", "w"}, Output: []string{"m"}},
				{Name: "n2", OpType: "Transpose", Input: []string{"m"}, Output: []string{"t"}, Attribute: []*onnx.AttributeProto{{Name: "perm", Type: onnx.AttributeProto_INTS, Ints: []int64{1, 0}}}},
				{Name: "n3", OpType: "Scaler", Input: []string{"t"}, Output: []string{"y"}, Attribute: []*onnx.AttributeProto{{Name: "offset", Type: onnx.AttributeProto_FLOATS, Floats: []float32{0.5}}, {Name: "scale", Type: onnx.AttributeProto_FLOATS, Floats: []float32{2}}}},
				{Name: "n4", OpType: "LSTM", Input: []string{"x", "w", "w"}, Output: []string{"o"}, Attribute: []*onnx.AttributeProto{{Name: "hidden_size", Type: onnx.AttributeProto_INT, I: 2}, {Name: "activations", Type: onnx.AttributeProto_STRINGS, Strings: [][]byte{[]byte("Sigmoid"), []byte("Tanh"), []byte("Tanh")}}, {Name: "direction", Type: onnx.AttributeProto_STRING, S: []byte("forward")}, {Name: "clip", Type: onnx.AttributeProto_FLOAT, F: 1}}},
			}}}
	fieldSeeds := []proto.Message{rich}
	for _, s := range seeds {
		if len(s) > 5000 {
			continue
		}
		mp := &onnx.ModelProto{}
		if proto.Unmarshal(s, mp) == nil && mp.Graph != nil {
			fieldSeeds = append(fieldSeeds, mp)
		}
	}
	nField := 0
	for si, fs := range fieldSeeds {
		lim := 4000
		if tier == "thorough" {
			lim = 0
		}
		nField += forEachFieldMutant(fs, lim, func(b []byte, what string) { try(b, fmt.Sprintf("field mutant of seed model %d: %s", si, what)) })
	}
	return fz, stat, nField
}

type bytesChildResult struct {
	Result goOnlyResult   `json:"result"`
	Stat   map[string]int `json:"stat"`
	NField int            `json:"n_field"`
}

func childC18Bytes(dir, tier string, seed int64) {
	// 24 GB of address space: far more than any honest load needs, far less than a 2^33-element buffer
	var lim syscall.Rlimit
	lim.Cur, lim.Max = 24<<30, 24<<30
	syscall.Setrlimit(syscall.RLIMIT_AS, &lim)
	nMut, nRand := 3000, 1500
	if tier == "thorough" {
		nMut, nRand = 500000, 120000
	}
	pf, _ := os.Create(filepath.Join(dir, "c18bytes.progress"))
	progress := func(what string, b []byte) {
		if pf == nil {
			return
		}
		pf.Seek(0, 0)
		pf.Truncate(0)
		fmt.Fprintf(pf, "%s\n", what)
		os.WriteFile(filepath.Join(dir, "c18bytes.last.bin"), b, 0o644)
	}
	fz, stat, nField := bytesStreamC18(dir, tier, seed, nMut, nRand, progress)
	bs, _ := json.Marshal(bytesChildResult{fz, stat, nField})
	os.WriteFile(filepath.Join(dir, "c18bytes.json"), bs, 0o644)
}
