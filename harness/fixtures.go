package main

import (
	"github.com/advancedclimatesystems/gonnx/onnx"
	"gorgonia.org/tensor"
)

// Valid-input fixtures for every operator of the opset (some in several variants): attributes,
// output names and input constructors. Used by the effect stream (C02), the real-operator
// graph stream (C01), the history stream (C02) and the concurrency stream (C17).

func fxF32(shape ...int) tensor.Tensor {
	d := make([]float32, numel(shape))
	for i := range d {
		d[i] = float32((i*7)%11-5) / 10
	}
	return tensor.New(tensor.WithShape(shape...), tensor.WithBacking(d))
}
func fxPos32(shape ...int) tensor.Tensor { // values in (1, 2): inside every function's domain after -1
	d := make([]float32, numel(shape))
	for i := range d {
		d[i] = 1.1 + float32(i%7)/10
	}
	return tensor.New(tensor.WithShape(shape...), tensor.WithBacking(d))
}
func fxUnit32(shape ...int) tensor.Tensor { // values in (-1, 1)
	d := make([]float32, numel(shape))
	for i := range d {
		d[i] = float32((i*3)%9-4) / 10
	}
	return tensor.New(tensor.WithShape(shape...), tensor.WithBacking(d))
}
func fxI64(vals ...int64) tensor.Tensor {
	return tensor.New(tensor.WithShape(len(vals)), tensor.WithBacking(vals))
}
func fxBools(shape ...int) tensor.Tensor {
	d := make([]bool, numel(shape))
	for i := range d {
		d[i] = i%3 == 0
	}
	return tensor.New(tensor.WithShape(shape...), tensor.WithBacking(d))
}
func aI(n string, v int64) *onnx.AttributeProto {
	return &onnx.AttributeProto{Name: n, I: v, Type: onnx.AttributeProto_INT}
}
func aIs(n string, v ...int64) *onnx.AttributeProto {
	return &onnx.AttributeProto{Name: n, Ints: v, Type: onnx.AttributeProto_INTS}
}
func aFs(n string, v ...float32) *onnx.AttributeProto {
	return &onnx.AttributeProto{Name: n, Floats: v, Type: onnx.AttributeProto_FLOATS}
}
func aS(n string, v string) *onnx.AttributeProto {
	return &onnx.AttributeProto{Name: n, S: []byte(v), Type: onnx.AttributeProto_STRING}
}
func aF(n string, v float32) *onnx.AttributeProto {
	return &onnx.AttributeProto{Name: n, F: v, Type: onnx.AttributeProto_FLOAT}
}
func aT(n string, t *onnx.TensorProto) *onnx.AttributeProto {
	return &onnx.AttributeProto{Name: n, T: t, Type: onnx.AttributeProto_TENSOR}
}

type fixture struct {
	attrs   []*onnx.AttributeProto
	outputs []string
	inputs  func() []tensor.Tensor
}

func fixtures() map[string][]fixture {
	un := func(mk func(...int) tensor.Tensor) []fixture {
		return []fixture{{inputs: func() []tensor.Tensor { return []tensor.Tensor{mk(2, 3)} }}}
	}
	bin := []fixture{{inputs: func() []tensor.Tensor { return []tensor.Tensor{fxF32(2, 3), fxPos32(3)} }},
		{inputs: func() []tensor.Tensor { return []tensor.Tensor{fxF32(2, 3), fxPos32(2, 3)} }}}
	logic := []fixture{{inputs: func() []tensor.Tensor { return []tensor.Tensor{fxBools(2, 3), fxBools(3)} }}}
	m := map[string][]fixture{
		"Abs": un(fxF32), "Relu": un(fxF32), "Sigmoid": un(fxF32), "Tanh": un(fxF32), "Sin": un(fxF32), "Cos": un(fxF32), "Tan": un(fxF32),
		"Asin": un(fxUnit32), "Acos": un(fxUnit32), "Atan": un(fxF32), "Sinh": un(fxF32), "Cosh": un(fxF32), "Asinh": un(fxF32), "Acosh": un(fxPos32), "Atanh": un(fxUnit32),
		"Not": un(fxBools), "Add": bin, "Sub": bin, "Mul": bin, "Div": bin, "Equal": bin, "Greater": bin, "GreaterOrEqual": bin, "Less": bin, "LessOrEqual": bin,
		"And": logic, "Or": logic, "Xor": logic,
		"PRelu": {{inputs: func() []tensor.Tensor { return []tensor.Tensor{fxF32(2, 3), fxPos32(3)} }}},
		"ArgMax": {{attrs: []*onnx.AttributeProto{aI("axis", 1)}, inputs: func() []tensor.Tensor { return []tensor.Tensor{fxF32(2, 3)} }},
			{attrs: []*onnx.AttributeProto{aI("axis", 0), aI("keepdims", 0)}, inputs: func() []tensor.Tensor { return []tensor.Tensor{fxF32(2, 3)} }}},
		"ReduceMax":  {{attrs: []*onnx.AttributeProto{aIs("axes", 1)}, inputs: func() []tensor.Tensor { return []tensor.Tensor{fxF32(2, 3)} }}},
		"ReduceMin":  {{attrs: []*onnx.AttributeProto{aIs("axes", 0), aI("keepdims", 0)}, inputs: func() []tensor.Tensor { return []tensor.Tensor{fxF32(2, 3)} }}},
		"Softmax":    un(fxF32),
		"LogSoftmax": un(fxF32),
		"Cast": {{attrs: []*onnx.AttributeProto{aI("to", 7)}, inputs: func() []tensor.Tensor { return []tensor.Tensor{fxF32(2, 3)} }},
			{attrs: []*onnx.AttributeProto{aI("to", 1)}, inputs: func() []tensor.Tensor { return []tensor.Tensor{fxF32(2, 3)} }},
			{attrs: []*onnx.AttributeProto{aI("to", 11)}, inputs: func() []tensor.Tensor { return []tensor.Tensor{fxI64(2, -1)} }}},
		"Concat": {{attrs: []*onnx.AttributeProto{aI("axis", 0)}, inputs: func() []tensor.Tensor { return []tensor.Tensor{fxF32(2, 3), fxF32(1, 3)} }},
			{attrs: []*onnx.AttributeProto{aI("axis", 0)}, inputs: func() []tensor.Tensor { return []tensor.Tensor{fxF32(2, 3)} }}},
		"Constant":        {{attrs: []*onnx.AttributeProto{aFs("value_floats", 1, 2)}, inputs: func() []tensor.Tensor { return nil }}},
		"ConstantOfShape": {{inputs: func() []tensor.Tensor { return []tensor.Tensor{fxI64(2, 3)} }}},
		"Conv": {{inputs: func() []tensor.Tensor { return []tensor.Tensor{fxF32(1, 2, 4, 4), fxF32(3, 2, 2, 2), fxF32(3)} }},
			{attrs: []*onnx.AttributeProto{aIs("pads", 1, 1, 1, 1), aIs("strides", 2, 2)}, inputs: func() []tensor.Tensor { return []tensor.Tensor{fxF32(1, 1, 4, 4), fxF32(1, 1, 2, 2)} }},
			{inputs: func() []tensor.Tensor { return []tensor.Tensor{fxF32(1, 2, 5), fxF32(3, 2, 2), fxF32(3)} }},
			{attrs: []*onnx.AttributeProto{aIs("dilations", 2, 2)}, inputs: func() []tensor.Tensor { return []tensor.Tensor{fxF32(1, 1, 5, 5), fxF32(2, 1, 2, 2)} }},
			{attrs: []*onnx.AttributeProto{aS("auto_pad", "SAME_UPPER"), aIs("dilations", 2)}, inputs: func() []tensor.Tensor { return []tensor.Tensor{fxF32(1, 2, 6), fxF32(1, 2, 2), fxF32(1)} }}},
		"Expand":  {{inputs: func() []tensor.Tensor { return []tensor.Tensor{fxF32(3, 1), fxI64(3, 4)} }}, {inputs: func() []tensor.Tensor { return []tensor.Tensor{fxF32(3, 4), fxI64(3, 4)} }}},
		"Flatten": un(fxF32),
		"Gather":  {{attrs: []*onnx.AttributeProto{aI("axis", 1)}, inputs: func() []tensor.Tensor { return []tensor.Tensor{fxF32(2, 3), fxI64(2, -1)} }}},
		"Gemm": {{attrs: []*onnx.AttributeProto{aI("transB", 1)}, inputs: func() []tensor.Tensor { return []tensor.Tensor{fxF32(2, 3), fxF32(4, 3), fxF32(4)} }},
			{attrs: []*onnx.AttributeProto{aI("transA", 1)}, inputs: func() []tensor.Tensor { return []tensor.Tensor{fxF32(3, 2), fxF32(3, 4)} }},
			{attrs: []*onnx.AttributeProto{aF("alpha", 0.5), aF("beta", 0.25)}, inputs: func() []tensor.Tensor { return []tensor.Tensor{fxF32(2, 3), fxF32(3, 4), fxF32(2, 4)} }},
			{attrs: []*onnx.AttributeProto{aF("beta", 2)}, inputs: func() []tensor.Tensor { return []tensor.Tensor{fxF32(1, 3), fxF32(3, 4), fxF32(1, 4)} }},
			{attrs: []*onnx.AttributeProto{aI("transA", 1), aI("transB", 1)}, inputs: func() []tensor.Tensor { return []tensor.Tensor{fxF32(3, 2), fxF32(4, 3), fxF32(4)} }}},
		"GRU": {{attrs: []*onnx.AttributeProto{aI("hidden_size", 2)}, outputs: []string{"Y", "Y_h"}, inputs: func() []tensor.Tensor {
			return []tensor.Tensor{fxF32(2, 2, 3), fxF32(1, 6, 3), fxF32(1, 6, 2), fxF32(1, 12), nil, fxF32(1, 2, 2)}
		}}, {attrs: []*onnx.AttributeProto{aI("hidden_size", 2)}, outputs: []string{"Y", "Y_h"}, inputs: func() []tensor.Tensor { // a sequence of ONE step
			return []tensor.Tensor{fxF32(1, 2, 3), fxF32(1, 6, 3), fxF32(1, 6, 2), fxF32(1, 12), nil, fxF32(1, 2, 2)}
		}}, {attrs: []*onnx.AttributeProto{aI("hidden_size", 2)}, outputs: []string{"Y", "Y_h"}, inputs: func() []tensor.Tensor { // a batch of ONE sample
			return []tensor.Tensor{fxF32(3, 1, 3), fxF32(1, 6, 3), fxF32(1, 6, 2), fxF32(1, 12), nil, fxF32(1, 1, 2)}
		}}},
		"RNN": {{attrs: []*onnx.AttributeProto{aI("hidden_size", 2)}, outputs: []string{"Y", "Y_h"}, inputs: func() []tensor.Tensor {
			return []tensor.Tensor{fxF32(2, 2, 3), fxF32(1, 2, 3), fxF32(1, 2, 2), fxF32(1, 4), nil, fxF32(1, 2, 2)}
		}}, {attrs: []*onnx.AttributeProto{aI("hidden_size", 2)}, outputs: []string{"Y", "Y_h"}, inputs: func() []tensor.Tensor { // a sequence of ONE step
			return []tensor.Tensor{fxF32(1, 2, 3), fxF32(1, 2, 3), fxF32(1, 2, 2), fxF32(1, 4), nil, fxF32(1, 2, 2)}
		}}, {attrs: []*onnx.AttributeProto{aI("hidden_size", 2)}, outputs: []string{"Y", "Y_h"}, inputs: func() []tensor.Tensor { // a batch of ONE sample
			return []tensor.Tensor{fxF32(3, 1, 3), fxF32(1, 2, 3), fxF32(1, 2, 2), fxF32(1, 4), nil, fxF32(1, 1, 2)}
		}}},
		"LSTM": {{attrs: []*onnx.AttributeProto{aI("hidden_size", 2)}, outputs: []string{"Y", "Y_h", "Y_c"}, inputs: func() []tensor.Tensor {
			return []tensor.Tensor{fxF32(2, 2, 3), fxF32(1, 8, 3), fxF32(1, 8, 2), fxF32(1, 16), nil, fxF32(1, 2, 2), fxF32(1, 2, 2), fxF32(1, 6)}
		}}, {attrs: []*onnx.AttributeProto{aI("hidden_size", 2)}, outputs: []string{"Y", "Y_h", "Y_c"}, inputs: func() []tensor.Tensor { // a sequence of ONE step
			return []tensor.Tensor{fxF32(1, 2, 3), fxF32(1, 8, 3), fxF32(1, 8, 2), fxF32(1, 16), nil, fxF32(1, 2, 2), fxF32(1, 2, 2), fxF32(1, 6)}
		}}, {attrs: []*onnx.AttributeProto{aI("hidden_size", 2)}, outputs: []string{"Y", "Y_h", "Y_c"}, inputs: func() []tensor.Tensor { // a batch of ONE sample; initial_c without initial_h
			return []tensor.Tensor{fxF32(3, 1, 3), fxF32(1, 8, 3), fxF32(1, 8, 2), fxF32(1, 16), nil, nil, fxF32(1, 1, 2)}
		}}},
		"LinearRegressor": {{attrs: []*onnx.AttributeProto{aFs("coefficients", 1, 2, 3, 4, 5, 6), aFs("intercepts", 1, 2), aI("targets", 2)}, inputs: func() []tensor.Tensor { return []tensor.Tensor{fxF32(2, 3)} }}},
		"Scaler": {{attrs: []*onnx.AttributeProto{aFs("offset", 1, 2, 3), aFs("scale", 2, 2, 2)}, inputs: func() []tensor.Tensor { return []tensor.Tensor{fxF32(2, 3)} }},
			{attrs: []*onnx.AttributeProto{aFs("offset", 1, 2, 3), aFs("scale", 2, 3, 4)}, inputs: func() []tensor.Tensor { return []tensor.Tensor{fxF32(3)} }},
			{attrs: []*onnx.AttributeProto{aFs("offset", 1, 2, 3), aFs("scale", 2, 3, 4)}, inputs: func() []tensor.Tensor { return []tensor.Tensor{fxF32(1, 3)} }}},
		"MatMul": {{inputs: func() []tensor.Tensor { return []tensor.Tensor{fxF32(2, 3), fxF32(3, 2)} }},
			{inputs: func() []tensor.Tensor { return []tensor.Tensor{fxF32(3), fxF32(3, 2)} }}, {inputs: func() []tensor.Tensor { return []tensor.Tensor{fxF32(2, 3), fxF32(3)} }}, {inputs: func() []tensor.Tensor { return []tensor.Tensor{fxF32(2, 2, 3), fxF32(3)} }},
			{inputs: func() []tensor.Tensor { return []tensor.Tensor{fxF32(3), fxF32(2, 3, 2)} }}},
		"Reshape": {{inputs: func() []tensor.Tensor { return []tensor.Tensor{fxF32(2, 3), fxI64(3, -1)} }}},
		"Shape":   un(fxF32),
		"Slice": {{inputs: func() []tensor.Tensor {
			return []tensor.Tensor{fxF32(3, 4), fxI64(0, 1), fxI64(2, 3), fxI64(0, 1), fxI64(1, 1)}
		}}, {inputs: func() []tensor.Tensor { return []tensor.Tensor{fxF32(3, 4), fxI64(1), fxI64(3)} }}},
		"Squeeze":   {{inputs: func() []tensor.Tensor { return []tensor.Tensor{fxF32(1, 3, 1), fxI64(0, -1)} }}, {inputs: func() []tensor.Tensor { return []tensor.Tensor{fxF32(1, 3)} }}},
		"Unsqueeze": {{inputs: func() []tensor.Tensor { return []tensor.Tensor{fxF32(2, 3), fxI64(2, 0)} }}},
		"Transpose": {{attrs: []*onnx.AttributeProto{aIs("perm", 1, 0)}, inputs: func() []tensor.Tensor { return []tensor.Tensor{fxF32(2, 3)} }}},
	}
	return m
}
