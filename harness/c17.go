package main

import (
	"fmt"
	"math/rand"
	"sort"
	"strings"
	"sync"
	"sync/atomic"
	"time"

	"github.com/advancedclimatesystems/gonnx"
	"github.com/advancedclimatesystems/gonnx/onnx"
	"github.com/advancedclimatesystems/gonnx/ops/opset13"
	"google.golang.org/protobuf/proto"
	"gorgonia.org/tensor"
)

// one concurrently exercised model: bytes, an input builder per variant, output names
type concModel struct {
	name  string
	bytes []byte
	mk    func(variant int) gonnx.Tensors
	outs  []string
	nVar  int
}

func paramSnapshot(m *gonnx.Model) string {
	ps := m.VerifParameters()
	var ks []string
	for k := range ps {
		ks = append(ks, k)
	}
	sort.Strings(ks)
	var ss []string
	for _, k := range ks {
		ss = append(ss, k+"="+snapT(ps[k]))
	}
	return strings.Join(ss, " | ")
}

func genC17(dir, tier string, seed int64) {
	r := rand.New(rand.NewSource(seed))
	var models []*concModel
	for _, s := range sampleModels(tier == "thorough") {
		s := s
		models = append(models, &concModel{name: s.name, bytes: s.bytes, outs: s.outputs, nVar: 4, mk: func(v int) gonnx.Tensors { return s.mkInputs(1+v%3, v) }})
	}
	fxs := fixtures()
	names := opset13.GetOpNames()
	sort.Strings(names)
	for _, n := range names {
		for _, f := range fxs[n] {
			// everything after the first input is a weight shared by all Runs
			if fm := buildFxModel(n, f, 1); fm != nil {
				fm := fm
				models = append(models, &concModel{name: "fixture:" + n, bytes: fm.bytes, outs: fm.outNames, nVar: 1, mk: func(int) gonnx.Tensors { return fm.mkInputs() }})
			}
		}
	}
	res := goOnlyResult{Stream: "C17_goroutines", Rule: "for the sample models and single-node models from every fixture (all inputs after the first as shared weights; Scaler/LinearRegressor/Constant attribute tensors included): 2, 4, 8 and 16 goroutines released by one barrier, each performing a sequence of Runs on ONE shared Model with its own input tensors (one Run in five with an input whose last axis is one too long, so that it fails inside an operator, or not, exactly as it does alone), with a background goroutine that keeps loading further Models (from the bytes and from the very ModelProto object the shared Model was built from) and running a model with an unimplemented operator (which fails); every output compared bit for bit with the sequential baseline; the binary is built with the Go race detector (a report is a violation)", Violations: []string{}}
	rounds := 1
	runsPer := 24
	if tier == "thorough" {
		rounds, runsPer = 3, 40
	}
	unknownOpModel, _ := proto.Marshal(&onnx.ModelProto{IrVersion: 7, OpsetImport: []*onnx.OperatorSetIdProto{{Version: 13}}, Graph: &onnx.GraphProto{
		Input: []*onnx.ValueInfoProto{{Name: "x"}}, Output: []*onnx.ValueInfoProto{{Name: "y"}},
		Node: []*onnx.NodeProto{{OpType: "Abs", Input: []string{"x"}, Output: []string{"a"}}, {OpType: "Mish", Input: []string{"a"}, Output: []string{"y"}}}}})
	hung := false
	for _, cm := range models {
		if hung {
			break
		}
		base := map[int]string{}
		var seqTime time.Duration // the slowest sequential Run of this model (race-detector build)
		ok := true
		for v := 0; v < cm.nVar; v++ {
			m, err := gonnx.NewModelFromBytes(cm.bytes)
			if err != nil {
				ok = false
				break
			}
			t0 := time.Now()
			out, err, _ := runRec(m, cm.mk(v))
			if d := time.Since(t0); d > seqTime {
				seqTime = d
			}
			base[v] = outSnap(out, err, cm.outs)
		}
		if !ok {
			continue
		}
		// a variant of every input set that (mostly) FAILS inside an operator -- one input with its last axis one
		// longer, which the dynamic signature lets through: failing Runs are mixed with the valid ones, and
		// each must end exactly as it ends alone
		mkBad := func(v int) gonnx.Tensors {
			in := cm.mk(v)
			var names []string
			for n := range in {
				names = append(names, n)
			}
			sort.Strings(names)
			for _, n := range names {
				t := in[n]
				if d, isF := t.Data().([]float32); isF && len(t.Shape()) >= 1 {
					sh := t.Shape().Clone()
					sh[len(sh)-1]++
					nn := 1
					for _, e := range sh {
						nn *= e
					}
					nd := make([]float32, nn)
					copy(nd, d)
					in[n] = tensor.New(tensor.WithShape(sh...), tensor.WithBacking(nd))
					break
				}
			}
			return in
		}
		badBase := map[int]string{}
		for v := 0; v < cm.nVar; v++ {
			m, err := gonnx.NewModelFromBytes(cm.bytes)
			if err != nil {
				break
			}
			out, err, _ := runRec(m, mkBad(v))
			badBase[v] = outSnap(out, err, cm.outs)
		}
		for round := 0; round < rounds && !hung; round++ {
			pick := []int{4, 8, 16}[r.Intn(3)]
			for _, nG := range []int{2, 4, 8, 16} {
				if tier != "thorough" && nG != pick && cm.name[:3] == "fix" {
					continue // quick tier: one goroutine count per fixture model (always one), all four for the sample models
				}
				res.N++
				// the shared Model is built from a ModelProto object that the background loader keeps loading from
				sharedProto := &onnx.ModelProto{}
				if proto.Unmarshal(cm.bytes, sharedProto) != nil {
					continue
				}
				shared, err := gonnx.NewModel(sharedProto)
				if err != nil {
					continue
				}
				var wg sync.WaitGroup
				var returned int64
				start := make(chan struct{})
				stop := make(chan struct{})
				var mu sync.Mutex
				bad := ""
				loaderDone := make(chan struct{})
				modelBytes := cm.bytes
				go func() { // loading further models concurrently
					defer close(loaderDone)
					for {
						select {
						case <-stop:
							return
						default:
							gonnx.NewModelFromBytes(modelBytes)
							gonnx.NewModel(sharedProto) // from the very proto the running Model was built from
							if um, err := gonnx.NewModelFromBytes(unknownOpModel); err == nil {
								runRec(um, gonnx.Tensors{"x": tensor.New(tensor.WithShape(2), tensor.WithBacking([]float32{1, 2}))}) // fails: unsupported operator
							}
						}
					}
				}()
				for g := 0; g < nG; g++ {
					wg.Add(1)
					go func(g int, cm *concModel) {
						defer wg.Done()
						<-start
						for k := 0; k < runsPer; k++ {
							v := (g + k) % cm.nVar
							in, want := cm.mk(v), base[v]
							if (g*7+k)%5 == 4 {
								in, want = mkBad(v), badBase[v]
							}
							out, err, _ := runRec(shared, in)
							atomic.AddInt64(&returned, 1)
							if s := outSnap(out, err, cm.outs); s != want {
								mu.Lock()
								if bad == "" {
									bad = fmt.Sprintf("%s: goroutine %d of %d, Run %d: result differs from the sequential baseline: %.300s  vs  %.300s", cm.name, g, nG, k, s, want)
								}
								mu.Unlock()
							}
						}
					}(g, cm)
				}
				p0 := paramSnapshot(shared)
				close(start)
				// a Run that never returns is a violation, not a broken check: the whole concurrent phase
				// gets 90 seconds plus twenty times the time the same number of Runs takes sequentially
				finished := make(chan struct{})
				go func() { wg.Wait(); close(finished) }()
				select {
				case <-finished:
				case <-time.After(90*time.Second + time.Duration(20*nG*runsPer)*seqTime):
					hung = true
				}
				close(stop)
				if hung {
					res.Violations = append(res.Violations, fmt.Sprintf("%s: %d goroutines x %d Runs on one shared Model did not all return within 90 s + 20 x the sequential time of as many Runs; %d of %d Runs had returned (deadlock or livelock inside Run). The stream stops here: later models may hang on the same process-wide state", cm.name, nG, runsPer, atomic.LoadInt64(&returned), nG*runsPer))
					break
				}
				<-loaderDone
				// afterwards: the weights are what they were, and a sequential Run still gives the baseline
				if bad == "" {
					if p1 := paramSnapshot(shared); p1 != p0 {
						bad = fmt.Sprintf("%s: the model's weights changed during %d concurrent goroutines: %.300s -> %.300s", cm.name, nG, p0, p1)
					}
				}
				if bad == "" {
					out, err, _ := runRec(shared, cm.mk(0))
					if s := outSnap(out, err, cm.outs); s != base[0] {
						bad = fmt.Sprintf("%s: a sequential Run after the concurrent phase (%d goroutines) differs from the baseline: %.300s  vs  %.300s", cm.name, nG, s, base[0])
					}
				}
				if bad != "" {
					res.Violations = append(res.Violations, bad)
				}
			}
		}
	}
	if len(res.Violations) > 20 {
		res.Violations = res.Violations[:20]
	}
	res.Distinct = res.N // every case is a fresh random draw / a different model, count or split point
	meta.GoOnly = append(meta.GoOnly, res)
	count("models", fmt.Sprint(len(models)))
}
