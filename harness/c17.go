package main

import (
	"fmt"
	"math"
	"math/rand"
	"sort"
	"strings"
	"sync"
	"sync/atomic"
	"time"

	"github.com/advancedclimatesystems/gonnx"
	"github.com/advancedclimatesystems/gonnx/onnx"
	"github.com/advancedclimatesystems/gonnx/ops/opset13"
	"google.golang.org/protobuf/proto"
	"gorgonia.org/tensor"
)

// one concurrently exercised model: bytes, an input builder per variant, output names
type concModel struct {
	name  string
	bytes []byte
	mk    func(variant int) gonnx.Tensors
	outs  []string
	nVar  int
}

func paramSnapshot(m *gonnx.Model) string {
	ps := m.VerifParameters()
	var ks []string
	for k := range ps {
		ks = append(ks, k)
	}
	sort.Strings(ks)
	var ss []string
	for _, k := range ks {
		ss = append(ss, k+"="+snapT(ps[k]))
	}
	return strings.Join(ss, " | ")
}

func genC17(dir, tier string, seed int64) {
	runDeadline = time.Hour // the watchdog below bounds the whole concurrent phase
	r := rand.New(rand.NewSource(seed))
	var models []*concModel
	for _, s := range sampleModels(tier == "thorough") {
		s := s
		models = append(models, &concModel{name: s.name, bytes: s.bytes, outs: s.outputs, nVar: 4, mk: func(v int) gonnx.Tensors { return s.mkInputs(1+v%3, v) }})
	}
	fxs := fixtures()
	names := opset13.GetOpNames()
	sort.Strings(names)
	for _, n := range names {
		for _, f := range fxs[n] {
			// everything after the first input is a weight shared by all Runs
			if fm := buildFxModel(n, f, 1); fm != nil {
				fm := fm
				models = append(models, &concModel{name: "fixture:" + n, bytes: fm.bytes, outs: fm.outNames, nVar: 1, mk: func(int) gonnx.Tensors { return fm.mkInputs() }})
			}
		}
	}
	// a model with four Constant nodes whose value tensors have one element type and shape, stored as raw
	// bytes, and different contents; and one with four such initializers
	rawF32 := func(vals ...float32) []byte {
		var b []byte
		for _, v := range vals {
			u := math.Float32bits(v)
			b = append(b, byte(u), byte(u>>8), byte(u>>16), byte(u>>24))
		}
		return b
	}
	xInfo := &onnx.ValueInfoProto{Name: "x", Type: &onnx.TypeProto{Value: &onnx.TypeProto_TensorType{TensorType: &onnx.TypeProto_Tensor{ElemType: 1, Shape: &onnx.TensorShapeProto{Dim: []*onnx.TensorShapeProto_Dimension{{Value: &onnx.TensorShapeProto_Dimension_DimParam{DimParam: "n"}}}}}}}}
	mkX := func(v int) gonnx.Tensors {
		return gonnx.Tensors{"x": tensor.New(tensor.WithShape(3), tensor.WithBacking([]float32{float32(v), float32(v) + 0.5, -float32(v)}))}
	}
	for _, asInit := range []bool{false, true} {
		g := &onnx.GraphProto{Name: "g", Input: []*onnx.ValueInfoProto{xInfo}}
		var outs []string
		for k := 0; k < 4; k++ {
			cn, yn := fmt.Sprintf("c%d", k), fmt.Sprintf("y%d", k)
			tp := &onnx.TensorProto{DataType: 1, Dims: []int64{3}, RawData: rawF32(float32(1+k*10), float32(2+k*10), float32(3+k*10))}
			if asInit {
				tp.Name = cn
				g.Initializer = append(g.Initializer, tp)
			} else {
				g.Node = append(g.Node, &onnx.NodeProto{OpType: "Constant", Output: []string{cn}, Attribute: []*onnx.AttributeProto{{Name: "value", Type: onnx.AttributeProto_TENSOR, T: tp}}})
			}
			g.Node = append(g.Node, &onnx.NodeProto{OpType: "Add", Input: []string{"x", cn}, Output: []string{yn}})
			g.Output = append(g.Output, &onnx.ValueInfoProto{Name: yn})
			outs = append(outs, yn)
		}
		b, _ := proto.Marshal(&onnx.ModelProto{IrVersion: 7, OpsetImport: []*onnx.OperatorSetIdProto{{Version: 13}}, Graph: g})
		name := "four-raw-constants-of-one-shape"
		if asInit {
			name = "four-raw-initializers-of-one-shape"
		}
		models = append(models, &concModel{name: name, bytes: b, outs: outs, nVar: 3, mk: mkX})
	}
	// models loaded CONCURRENTLY: two models whose initializers have the same names, element type and shape
	// (raw bytes) and different contents, loaded from 8 goroutines at once; each loaded Model must compute
	// what the same bytes compute when loaded alone
	loads := goOnlyResult{Stream: "C17_concurrent_loads", Rule: "two models whose (raw-bytes) initializers share names, element type and shape but not contents are loaded from 8 goroutines released by one barrier, 12 times each; every Model so loaded is run and must give, bit for bit, what its bytes give when loaded alone", Violations: []string{}}
	{
		var twins [][]byte
		var want []string
		for m := 0; m < 2; m++ {
			g := &onnx.GraphProto{Name: "g", Input: []*onnx.ValueInfoProto{xInfo}, Output: []*onnx.ValueInfoProto{{Name: "y"}},
				Initializer: []*onnx.TensorProto{{Name: "w", DataType: 1, Dims: []int64{3}, RawData: rawF32(float32(1+m*100), float32(2+m*100), float32(3+m*100))},
					{Name: "b", DataType: 1, Dims: []int64{3}, RawData: rawF32(float32(7+m*100), float32(8+m*100), float32(9+m*100))}},
				Node: []*onnx.NodeProto{{OpType: "Mul", Input: []string{"x", "w"}, Output: []string{"a"}}, {OpType: "Add", Input: []string{"a", "b"}, Output: []string{"y"}}}}
			b, _ := proto.Marshal(&onnx.ModelProto{IrVersion: 7, OpsetImport: []*onnx.OperatorSetIdProto{{Version: 13}}, Graph: g})
			twins = append(twins, b)
			mm, err := gonnx.NewModelFromBytes(b)
			if err != nil {
				want = append(want, "load error: "+err.Error())
				continue
			}
			out, err, _ := runRec(mm, mkX(2))
			want = append(want, outSnap(out, err, []string{"y"}))
		}
		nRounds := 6
		if tier == "thorough" {
			nRounds = 60
		}
		for round := 0; round < nRounds; round++ {
			loads.N++
			var wg sync.WaitGroup
			var mu sync.Mutex
			start := make(chan struct{})
			bad := ""
			for gi := 0; gi < 8; gi++ {
				wg.Add(1)
				go func(gi int) {
					defer wg.Done()
					<-start
					for k := 0; k < 12; k++ {
						which := (gi + k) % 2
						got := ""
						func() {
							defer func() {
								if rec := recover(); rec != nil {
									got = fmt.Sprintf("panic: %v", rec)
								}
							}()
							mm, err := gonnx.NewModelFromBytes(twins[which])
							if err != nil {
								got = "load error: " + err.Error()
								return
							}
							out, err, _ := runRec(mm, mkX(2))
							got = outSnap(out, err, []string{"y"})
						}()
						if got != want[which] {
							mu.Lock()
							if bad == "" {
								bad = fmt.Sprintf("model %d loaded by goroutine %d (load %d) while the other goroutines load its twin: %.300s  vs loaded alone  %.300s", which, gi, k, got, want[which])
							}
							mu.Unlock()
						}
					}
				}(gi)
			}
			close(start)
			wg.Wait()
			if bad != "" {
				loads.Violations = append(loads.Violations, bad)
				break
			}
		}
		loads.Distinct = loads.N
		meta.GoOnly = append(meta.GoOnly, loads)
	}
	res := goOnlyResult{Stream: "C17_goroutines", Rule: "for the sample models and single-node models from every fixture (all inputs after the first as shared weights; Scaler/LinearRegressor/Constant attribute tensors included), a model with four Constant nodes and one with four initializers of one element type and shape stored as raw bytes: 2, 4, 8 and 16 goroutines released by one barrier, each performing a sequence of Runs on ONE shared Model with its own input tensors (one Run in five with an input whose last axis is one too long, so that it fails inside an operator, or not, exactly as it does alone), with a background goroutine that keeps loading further Models (from the bytes and from the very ModelProto object the shared Model was built from) and running a model with an unimplemented operator (which fails); every output compared bit for bit with the sequential baseline; the binary is built with the Go race detector (a report is a violation)", Violations: []string{}}
	rounds := 1
	runsPer := 24
	if tier == "thorough" {
		rounds, runsPer = 3, 40
	}
	unknownOpModel, _ := proto.Marshal(&onnx.ModelProto{IrVersion: 7, OpsetImport: []*onnx.OperatorSetIdProto{{Version: 13}}, Graph: &onnx.GraphProto{
		Input: []*onnx.ValueInfoProto{{Name: "x"}}, Output: []*onnx.ValueInfoProto{{Name: "y"}},
		Node: []*onnx.NodeProto{{OpType: "Abs", Input: []string{"x"}, Output: []string{"a"}}, {OpType: "Mish", Input: []string{"a"}, Output: []string{"y"}}}}})
	hung := false
	for _, cm := range models {
		if hung {
			break
		}
		base := map[int]string{}
		var seqTime time.Duration // the slowest sequential Run of this model (race-detector build)
		ok := true
		for v := 0; v < cm.nVar; v++ {
			m, err := gonnx.NewModelFromBytes(cm.bytes)
			if err != nil {
				ok = false
				break
			}
			t0 := time.Now()
			out, err, _ := runRec(m, cm.mk(v))
			if d := time.Since(t0); d > seqTime {
				seqTime = d
			}
			base[v] = outSnap(out, err, cm.outs)
		}
		if !ok {
			continue
		}
		// a variant of every input set that (mostly) FAILS inside an operator -- one input with its last axis one
		// longer, which the dynamic signature lets through: failing Runs are mixed with the valid ones, and
		// each must end exactly as it ends alone
		mkBad := func(v int) gonnx.Tensors {
			in := cm.mk(v)
			var names []string
			for n := range in {
				names = append(names, n)
			}
			sort.Strings(names)
			for _, n := range names {
				t := in[n]
				if d, isF := t.Data().([]float32); isF && len(t.Shape()) >= 1 {
					sh := t.Shape().Clone()
					sh[len(sh)-1]++
					nn := 1
					for _, e := range sh {
						nn *= e
					}
					nd := make([]float32, nn)
					copy(nd, d)
					in[n] = tensor.New(tensor.WithShape(sh...), tensor.WithBacking(nd))
					break
				}
			}
			return in
		}
		badBase := map[int]string{}
		for v := 0; v < cm.nVar; v++ {
			m, err := gonnx.NewModelFromBytes(cm.bytes)
			if err != nil {
				break
			}
			out, err, _ := runRec(m, mkBad(v))
			badBase[v] = outSnap(out, err, cm.outs)
		}
		for round := 0; round < rounds && !hung; round++ {
			pick := []int{4, 8, 16}[r.Intn(3)]
			for _, nG := range []int{2, 4, 8, 16} {
				if tier != "thorough" && nG != pick && cm.name[:3] == "fix" {
					continue // quick tier: one goroutine count per fixture model (always one), all four for the sample models
				}
				res.N++
				// the shared Model is built from a ModelProto object that the background loader keeps loading from
				sharedProto := &onnx.ModelProto{}
				if proto.Unmarshal(cm.bytes, sharedProto) != nil {
					continue
				}
				shared, err := gonnx.NewModel(sharedProto)
				if err != nil {
					continue
				}
				var wg sync.WaitGroup
				var returned int64
				start := make(chan struct{})
				stop := make(chan struct{})
				var mu sync.Mutex
				bad := ""
				loaderDone := make(chan struct{})
				modelBytes := cm.bytes
				go func() { // loading further models concurrently
					defer close(loaderDone)
					for {
						select {
						case <-stop:
							return
						default:
							gonnx.NewModelFromBytes(modelBytes)
							gonnx.NewModel(sharedProto) // from the very proto the running Model was built from
							if um, err := gonnx.NewModelFromBytes(unknownOpModel); err == nil {
								runRec(um, gonnx.Tensors{"x": tensor.New(tensor.WithShape(2), tensor.WithBacking([]float32{1, 2}))}) // fails: unsupported operator
							}
						}
					}
				}()
				for g := 0; g < nG; g++ {
					wg.Add(1)
					go func(g int, cm *concModel) {
						defer wg.Done()
						<-start
						for k := 0; k < runsPer; k++ {
							v := (g + k) % cm.nVar
							in, want := cm.mk(v), base[v]
							if (g*7+k)%5 == 4 {
								in, want = mkBad(v), badBase[v]
							}
							out, err, _ := runRec(shared, in)
							atomic.AddInt64(&returned, 1)
							if s := outSnap(out, err, cm.outs); s != want {
								mu.Lock()
								if bad == "" {
									bad = fmt.Sprintf("%s: goroutine %d of %d, Run %d: result differs from the sequential baseline: %.300s  vs  %.300s", cm.name, g, nG, k, s, want)
								}
								mu.Unlock()
							}
						}
					}(g, cm)
				}
				p0 := paramSnapshot(shared)
				close(start)
				// a Run that never returns is a violation, not a broken check: the whole concurrent phase
				// gets 90 seconds plus twenty times the time the same number of Runs takes sequentially
				finished := make(chan struct{})
				go func() { wg.Wait(); close(finished) }()
				select {
				case <-finished:
				case <-time.After(90*time.Second + time.Duration(20*nG*runsPer)*seqTime):
					hung = true
				}
				close(stop)
				if hung {
					res.Violations = append(res.Violations, fmt.Sprintf("%s: %d goroutines x %d Runs on one shared Model did not all return within 90 s + 20 x the sequential time of as many Runs; %d of %d Runs had returned (deadlock or livelock inside Run). The stream stops here: later models may hang on the same process-wide state", cm.name, nG, runsPer, atomic.LoadInt64(&returned), nG*runsPer))
					break
				}
				<-loaderDone
				// afterwards: the weights are what they were, and a sequential Run still gives the baseline
				if bad == "" {
					if p1 := paramSnapshot(shared); p1 != p0 {
						bad = fmt.Sprintf("%s: the model's weights changed during %d concurrent goroutines: %.300s -> %.300s", cm.name, nG, p0, p1)
					}
				}
				if bad == "" {
					out, err, _ := runRec(shared, cm.mk(0))
					if s := outSnap(out, err, cm.outs); s != base[0] {
						bad = fmt.Sprintf("%s: a sequential Run after the concurrent phase (%d goroutines) differs from the baseline: %.300s  vs  %.300s", cm.name, nG, s, base[0])
					}
				}
				if bad != "" {
					res.Violations = append(res.Violations, bad)
				}
			}
		}
	}
	if len(res.Violations) > 20 {
		res.Violations = res.Violations[:20]
	}
	res.Distinct = res.N // every case is a fresh random draw / a different model, count or split point
	meta.GoOnly = append(meta.GoOnly, res)
	count("models", fmt.Sprint(len(models)))
}
