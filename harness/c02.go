package main

import (
	"fmt"
	"math/rand"
	"sort"
	"strings"
	"time"

	"github.com/advancedclimatesystems/gonnx"
	"github.com/advancedclimatesystems/gonnx/onnx"
	"github.com/advancedclimatesystems/gonnx/ops/opset13"
	"google.golang.org/protobuf/proto"
	"gorgonia.org/tensor"
)

// deep snapshot of a tensor: dtype, shape, strides and every element (bit patterns for floats)
func snapT(t tensor.Tensor) string {
	if t == nil {
		return "nil"
	}
	return fmt.Sprintf("%s strides=%v", tval(t), t.Strides())
}

// a single-node model built from a fixture: inputs listed in `asWeights` become initializers,
// the others graph inputs (declared with fully dynamic shapes of the right rank)
type fxModel struct {
	op       string
	fx       fixture
	bytes    []byte
	inNames  []string // graph inputs the caller must supply
	outNames []string
	mkInputs func() gonnx.Tensors
	// weights that are ALSO declared as graph inputs (initializer = default value): names and a
	// constructor of overriding tensors (same shapes and types, other values)
	defNames    []string
	mkOverrides func() gonnx.Tensors
}

// same shape and element type, other values (float tensors only; index-like integer operands keep
// their values so that the node stays valid)
func perturb(t tensor.Tensor) tensor.Tensor {
	c := t.Clone().(tensor.Tensor)
	switch d := c.Data().(type) {
	case []float32:
		for i := range d {
			d[i] = d[i]*2 + 1
		}
	case []float64:
		for i := range d {
			d[i] = d[i]*2 + 1
		}
	}
	return c
}

func tensorToProto(name string, t tensor.Tensor) *onnx.TensorProto {
	dims := make([]int64, len(t.Shape()))
	for i, d := range t.Shape() {
		dims[i] = int64(d)
	}
	tp := &onnx.TensorProto{Name: name, Dims: dims}
	switch d := t.Data().(type) {
	case []float32:
		tp.DataType = 1
		tp.FloatData = append([]float32{}, d...)
	case []float64:
		tp.DataType = 11
		tp.DoubleData = append([]float64{}, d...)
	case []int64:
		tp.DataType = 7
		tp.Int64Data = append([]int64{}, d...)
	case []int32:
		tp.DataType = 6
		tp.Int32Data = append([]int32{}, d...)
	case []bool:
		tp.DataType = 9
		for _, b := range d {
			if b {
				tp.Int32Data = append(tp.Int32Data, 1)
			} else {
				tp.Int32Data = append(tp.Int32Data, 0)
			}
		}
	default:
		return nil
	}
	return tp
}

var defaultsFirstToggle = false

// "" (none), "Concat" or "Expand": see buildFxModelD
var passThrough = ""

func buildFxModel(op string, fx fixture, weightsFrom int) *fxModel {
	return buildFxModelD(op, fx, weightsFrom, false)
}

func buildFxModelD(op string, fx fixture, weightsFrom int, defaults bool) *fxModel {
	ins := fx.inputs()
	m := &fxModel{op: op, fx: fx}
	g := &onnx.GraphProto{Name: "g"}
	node := &onnx.NodeProto{OpType: op, Attribute: fx.attrs}
	dyn := func(name string, rank int) *onnx.ValueInfoProto {
		var dims []*onnx.TensorShapeProto_Dimension
		for i := 0; i < rank; i++ {
			dims = append(dims, &onnx.TensorShapeProto_Dimension{Value: &onnx.TensorShapeProto_Dimension_DimParam{DimParam: fmt.Sprintf("d%d", i)}})
		}
		return &onnx.ValueInfoProto{Name: name, Type: &onnx.TypeProto{Value: &onnx.TypeProto_TensorType{TensorType: &onnx.TypeProto_Tensor{ElemType: 1, Shape: &onnx.TensorShapeProto{Dim: dims}}}}}
	}
	var feedIdx, defIdx []int
	for i, t := range ins {
		if t == nil {
			node.Input = append(node.Input, "")
			continue
		}
		name := fmt.Sprintf("in%d", i)
		node.Input = append(node.Input, name)
		if i >= weightsFrom {
			tp := tensorToProto(name, t)
			if tp == nil {
				return nil
			}
			g.Initializer = append(g.Initializer, tp)
			if defaults {
				g.Input = append(g.Input, dyn(name, len(t.Shape())))
				m.defNames = append(m.defNames, name)
				defIdx = append(defIdx, i)
			}
		} else {
			g.Input = append(g.Input, dyn(name, len(t.Shape())))
			m.inNames = append(m.inNames, name)
			feedIdx = append(feedIdx, i)
		}
	}
	// pass-through variant: every tensor the node reads (fed input, default or weight) of rank >= 1 first
	// goes through an identity-like node -- a one-input Concat, or an Expand to its own shape -- which may
	// hand on the very same object under a new, intermediate name; the operator under test is its consumer
	var pre []*onnx.NodeProto
	if passThrough != "" {
		for i, t := range ins {
			if t == nil || len(t.Shape()) == 0 {
				continue
			}
			src, via := node.Input[i], fmt.Sprintf("via%d", i)
			if passThrough == "Concat" {
				pre = append(pre, &onnx.NodeProto{OpType: "Concat", Input: []string{src}, Output: []string{via}, Attribute: []*onnx.AttributeProto{aI("axis", 0)}})
			} else {
				shp := make([]int64, len(t.Shape()))
				for k, d := range t.Shape() {
					shp[k] = int64(d)
				}
				g.Initializer = append(g.Initializer, &onnx.TensorProto{Name: via + "_shape", DataType: 7, Dims: []int64{int64(len(shp))}, Int64Data: shp})
				pre = append(pre, &onnx.NodeProto{OpType: "Expand", Input: []string{src, via + "_shape"}, Output: []string{via}})
			}
			node.Input[i] = via
		}
	}
	outs := fx.outputs
	if len(outs) == 0 {
		outs = []string{"out0"}
	}
	node.Output = outs
	for _, o := range outs {
		g.Output = append(g.Output, &onnx.ValueInfoProto{Name: o})
	}
	m.outNames = outs
	if ghostOutput { // a declared graph output that no node produces: every Run fails while collecting the outputs
		g.Output = append(g.Output, &onnx.ValueInfoProto{Name: "never_produced"})
	}
	g.Node = append(pre, node)
	if defaults {
		// every other model with defaults lists them BEFORE the required inputs in graph.input
		defaultsFirstToggle = !defaultsFirstToggle
		if defaultsFirstToggle {
			for i, j := 0, len(g.Input)-1; i < j; i, j = i+1, j-1 {
				g.Input[i], g.Input[j] = g.Input[j], g.Input[i]
			}
		}
	}
	b, err := proto.Marshal(&onnx.ModelProto{IrVersion: 7, OpsetImport: []*onnx.OperatorSetIdProto{{Version: 13}}, Graph: g})
	if err != nil {
		return nil
	}
	m.bytes = b
	m.mkOverrides = func() gonnx.Tensors {
		all := fx.inputs()
		t := gonnx.Tensors{}
		for k, i := range defIdx {
			t[m.defNames[k]] = perturb(all[i])
		}
		return t
	}
	m.mkInputs = func() gonnx.Tensors {
		all := fx.inputs()
		t := gonnx.Tensors{}
		for k, i := range feedIdx {
			t[m.inNames[k]] = all[i]
		}
		return t
	}
	return m
}

var ghostOutput = false

// two nodes of one operator type with different attributes in one graph (both orders): what one node's
// Init / Apply leaves behind may not change what the other computes -- on this Run, a later Run, or
// another Model
func pairFxModels() []*fxModel {
	var ms []*fxModel
	ais := func(n string, v ...int64) *onnx.AttributeProto {
		return &onnx.AttributeProto{Name: n, Ints: v, Type: onnx.AttributeProto_INTS}
	}
	acts := &onnx.AttributeProto{Name: "activations", Strings: [][]byte{[]byte("tanh"), []byte("sigmoid"), []byte("relu")}, Type: onnx.AttributeProto_STRINGS}
	type spec struct {
		name   string
		nodes  []realNode
		inits  map[string]tensor.Tensor
		inputs map[string]func() tensor.Tensor
		ranks  map[string]int
		outs   []string
	}
	specs := []spec{
		{name: "LSTM default + LSTM explicit activations",
			nodes: []realNode{{op: "LSTM", attrs: []*onnx.AttributeProto{aI("hidden_size", 2)}, in: []string{"x", "w", "r"}, out: []string{"Ya", "Ha", "Ca"}},
				{op: "LSTM", attrs: []*onnx.AttributeProto{aI("hidden_size", 2), acts}, in: []string{"x", "w", "r"}, out: []string{"Yb", "Hb", "Cb"}}},
			inits:  map[string]tensor.Tensor{"w": fxF32(1, 8, 3), "r": fxF32(1, 8, 2)},
			inputs: map[string]func() tensor.Tensor{"x": func() tensor.Tensor { return fxF32(2, 2, 3) }}, ranks: map[string]int{"x": 3},
			outs: []string{"Ya", "Ha", "Ca", "Yb", "Hb", "Cb"}},
		{name: "GRU default + GRU explicit activations",
			nodes: []realNode{{op: "GRU", attrs: []*onnx.AttributeProto{aI("hidden_size", 2)}, in: []string{"x", "w", "r"}, out: []string{"Ya", "Ha"}},
				{op: "GRU", attrs: []*onnx.AttributeProto{aI("hidden_size", 2), {Name: "activations", Strings: [][]byte{[]byte("tanh"), []byte("relu")}, Type: onnx.AttributeProto_STRINGS}}, in: []string{"x", "w", "r"}, out: []string{"Yb", "Hb"}}},
			inits:  map[string]tensor.Tensor{"w": fxF32(1, 6, 3), "r": fxF32(1, 6, 2)},
			inputs: map[string]func() tensor.Tensor{"x": func() tensor.Tensor { return fxF32(2, 2, 3) }}, ranks: map[string]int{"x": 3},
			outs: []string{"Ya", "Ha", "Yb", "Hb"}},
		{name: "Conv 3x3 dilated by 2 + Conv 5x5",
			nodes: []realNode{{op: "Conv", attrs: []*onnx.AttributeProto{ais("dilations", 2, 2)}, in: []string{"x", "k3"}, out: []string{"y0"}},
				{op: "Conv", attrs: []*onnx.AttributeProto{ais("dilations", 1, 1)}, in: []string{"x", "k5"}, out: []string{"y1"}}},
			inits:  map[string]tensor.Tensor{"k3": fxPos32(2, 2, 3, 3), "k5": fxF32(2, 2, 5, 5)},
			inputs: map[string]func() tensor.Tensor{"x": func() tensor.Tensor { return fxF32(1, 2, 7, 7) }}, ranks: map[string]int{"x": 4},
			outs: []string{"y0", "y1"}},
	}
	for _, sp := range specs {
		for order := 0; order < 2; order++ {
			sp := sp
			nodes := append([]realNode{}, sp.nodes...)
			if order == 1 {
				nodes[0], nodes[1] = nodes[1], nodes[0]
			}
			var inNames []string
			for n := range sp.inputs {
				inNames = append(inNames, n)
			}
			sort.Strings(inNames)
			m := &fxModel{op: fmt.Sprintf("%s (order %d)", sp.name, order), inNames: inNames, outNames: sp.outs}
			m.bytes = realModel(inNames, sp.ranks, sp.inits, nodes, sp.outs)
			m.mkInputs = func() gonnx.Tensors {
				t := gonnx.Tensors{}
				for n, f := range sp.inputs {
					t[n] = f()
				}
				return t
			}
			m.mkOverrides = func() gonnx.Tensors { return gonnx.Tensors{} }
			ms = append(ms, m)
		}
	}
	return ms
}

func outSnap(out gonnx.Tensors, err error, names []string) string {
	if err != nil {
		return "error"
	}
	var ss []string
	for _, n := range names {
		ss = append(ss, n+"="+snapT(out[n]))
	}
	return strings.Join(ss, " | ")
}

// runRec: one Run under recover() and under a deadline -- a Run that does not return (a lock an
// earlier failing Run never released, a wait for a goroutine that never finishes) is reported like a
// panic, with an error text saying so; the goroutine stuck in it is left behind
var runDeadline = 120 * time.Second

func runRec(m *gonnx.Model, in gonnx.Tensors) (out gonnx.Tensors, err error, panicked bool) {
	type res struct {
		out gonnx.Tensors
		err error
		pan bool
	}
	ch := make(chan res, 1)
	go func() {
		defer func() {
			if r := recover(); r != nil {
				ch <- res{nil, fmt.Errorf("panic: %v", r), true}
			}
		}()
		o, e := m.Run(in)
		ch <- res{o, e, false}
	}()
	tm := time.NewTimer(runDeadline)
	defer tm.Stop()
	select {
	case r := <-ch:
		return r.out, r.err, r.pan
	case <-tm.C:
		d := runDeadline
		if runDeadline > 3*time.Second {
			runDeadline = 3 * time.Second // one hang is a violation already: later ones are not waited for as long
		}
		return nil, fmt.Errorf("HUNG: Run did not return within %v", d), true
	}
}

// the operator-level generators whose cases are re-used for effect snapshots
var effectGenerators = []func(dir, tier string, seed int64){genC03, genC04, genC05, genC07, genC08, genC09, genC10, genC11}

func genC02(dir, tier string, seed int64) {
	r := rand.New(rand.NewSource(seed))
	fxs := fixtures()
	names := opset13.GetOpNames()
	sort.Strings(names)

	// ---- stream 1: effect of one application on every input object, judged in Coq ----
	cw := newCaseWriter(dir, "C02_effects", opHeader("CheckC02"), opFooter,
		"every registered operator x its valid fixtures (55 operators, 70 fixtures; some applied twice on the SAME tensor objects): deep snapshot of every input (dtype, shape, payload bits) before and after Init/ValidateInputs/Apply; the model's effect on inputs is the identity", true, 200)
	noFx := goOnlyResult{Stream: "C02_fixture_coverage", Rule: "every registered operator has at least one valid fixture whose application succeeds", Violations: []string{}}
	for _, n := range names {
		noFx.N++
		fs, ok := fxs[n]
		if !ok {
			noFx.Violations = append(noFx.Violations, "no fixture for registered operator "+n)
			continue
		}
		for _, f := range fs {
			var attrs []attr
			for _, a := range f.attrs {
				attrs = append(attrs, attrFromProto(a))
			}
			// run with the fixture's own output names (LSTM/GRU/RNN read them)
			ins := f.inputs()
			obs := observeWithOutputs(n, f.attrs, f.outputs, ins)
			writeOpCase(cw, n, attrs, f.inputs(), obs, ins)
			if !strings.HasPrefix(obs, "(OOk") {
				noFx.Violations = append(noFx.Violations, fmt.Sprintf("fixture of %s does not run: %s", n, obs))
			}
		}
	}
	cw.close()
	meta.GoOnly = append(meta.GoOnly, noFx)

	// ---- stream 1b: the same effect snapshot on every case the operator-level generators produce ----
	dryCases = true
	effectsAll.N, effectsAll.Violations = 0, []string{}
	for _, g := range effectGenerators {
		g(dir, "quick", seed)
	}
	dryCases = false
	meta.GoOnly = append(meta.GoOnly, effectsAll)

	// ---- stream 2: histories of Runs on one Model vs a fresh Model ----
	hist := goOnlyResult{Stream: "C02_histories", Rule: "single-node models from every fixture, and the same node reading every tensor through an identity-like node (a one-input Concat or an Expand to the tensor's own shape) (trailing inputs as initializers: weights, biases, initial states, axes, shapes; each also in the variant where those initializers are declared graph inputs, i.e. defaults that some calls of the history override with other values and other calls leave out) + two-node models (LSTM / GRU with default and with explicit activations, two Conv nodes whose dilated kernels have one shape; both orders) + the loadable sample models: histories of 2..6 Runs on ONE Model (same input objects re-used, the same objects refilled in place with other contents -- inputs and overriding weights alike --, fresh copies, interleaved failing calls: missing input, wrong rank, an input of another element type; one fixture model in three also in a graph that declares an output no node produces, so that every Run fails while the outputs are collected; every Run under a deadline of 120 s -- a Run that does not return is a violation); every Run compared bit for bit with the same call on a freshly loaded Model AND with the first result ever observed for these input values; caller tensors and Model parameters (through the verif hook) snapshotted before/after every Run", Violations: []string{}}
	nHist := 2
	if tier == "thorough" {
		nHist = 120
	}
	var models []*fxModel
	for _, n := range names {
		for _, f := range fxs[n] {
			nin := len(f.inputs())
			for w := 1; w <= nin; w++ {
				if w > 1 && w < nin && r.Intn(2) == 0 && tier != "thorough" {
					continue
				}
				if m := buildFxModel(n, f, w); m != nil {
					models = append(models, m)
				}
				if w < nin {
					if m := buildFxModelD(n, f, w, true); m != nil {
						models = append(models, m)
					}
				}
			}
			if nin == 0 {
				if m := buildFxModel(n, f, 0); m != nil {
					models = append(models, m)
				}
			}
			if nin >= 1 {
				passThrough = []string{"Concat", "Expand"}[len(models)%2]
				if m := buildFxModelD(n, f, 1, len(models)%4 < 2); m != nil {
					m.op = n + " behind " + passThrough
					models = append(models, m)
				}
				passThrough = ""
			}
			if nin >= 1 && len(models)%3 == 0 { // Runs that fail at the very end, while the outputs are collected
				ghostOutput = true
				if m := buildFxModel(n, f, 1); m != nil {
					m.op = n + " in a graph that declares an output no node produces"
					models = append(models, m)
				}
				ghostOutput = false
			}
		}
	}
	models = append(models, pairFxModels()...)
	// the first result ever observed for a model and an input set (by value): every later Run with the same
	// values -- on this Model or a freshly loaded one -- must give it again (state kept at package level
	// corrupts the "fresh" Model of the comparison just as well)
	firstSeen := map[string]string{}
	for mi, fm := range models {
		for h := 0; h < nHist; h++ {
			hist.N++
			func() {
				defer func() {
					if rec := recover(); rec != nil {
						hist.Violations = append(hist.Violations, fmt.Sprintf("%s: panic in history: %v", fm.op, rec))
					}
				}()
				shared, err := gonnx.NewModelFromBytes(fm.bytes)
				if err != nil {
					hist.Violations = append(hist.Violations, fmt.Sprintf("%s: model does not load: %v", fm.op, err))
					return
				}
				paramSnap := func(m *gonnx.Model) string {
					ps := m.VerifParameters()
					var ks []string
					for k := range ps {
						ks = append(ks, k)
					}
					sort.Strings(ks)
					var ss []string
					for _, k := range ks {
						ss = append(ss, k+"="+snapT(ps[k]))
					}
					return strings.Join(ss, " | ")
				}
				p0 := paramSnap(shared)
				reused := fm.mkInputs()
				var reusedOv gonnx.Tensors
				steps := 2 + r.Intn(5)
				for s := 0; s < steps; s++ {
					kind := r.Intn(8)
					if len(fm.defNames) > 0 && h%2 == 1 && s == 0 {
						kind = 4 // a history that STARTS with a call failing for a missing input ...
					}
					var in gonnx.Tensors
					switch {
					case kind >= 6: // the very same tensor objects again, REFILLED in place with other contents
						var ts []tensor.Tensor
						for _, t := range reused {
							ts = append(ts, t)
						}
						rotateInPlace(ts)
						in = reused
					case kind <= 1:
						in = reused // the very same tensor objects again
					case kind <= 3:
						in = fm.mkInputs()
					case kind == 4 && len(fm.inNames) > 0: // failing call: an input missing
						in = fm.mkInputs()
						delete(in, fm.inNames[r.Intn(len(fm.inNames))])
					case kind == 5 && len(fm.inNames) > 0 && s%2 == 0: // failing call: an input of another element type (refused inside the node's gate, not by the signature)
						in = fm.mkInputs()
						nm := fm.inNames[r.Intn(len(fm.inNames))]
						sh := in[nm].Shape().Clone()
						n := 1
						for _, d := range sh {
							n *= d
						}
						if len(sh) == 0 {
							in[nm] = tensor.New(tensor.FromScalar("s"))
						} else {
							in[nm] = tensor.New(tensor.WithShape(sh...), tensor.WithBacking(make([]string, n)))
						}
					default: // failing call: wrong rank (six axes, or one axis less than declared)
						in = fm.mkInputs()
						if len(fm.inNames) > 0 {
							nm := fm.inNames[r.Intn(len(fm.inNames))]
							if sh := in[nm].Shape(); r.Intn(2) == 0 && len(sh) >= 2 {
								n := 1
								for _, d := range sh[1:] {
									n *= d
								}
								in[nm] = tensor.New(tensor.WithShape(sh[1:]...), tensor.WithBacking(make([]float32, n)))
							} else {
								in[nm] = tensor.New(tensor.WithShape(1, 1, 1, 1, 1, 1), tensor.WithBacking([]float32{1}))
							}
						}
					}
					// a weight that is also a graph input: overridden in some calls, defaulted in the others
					if len(fm.defNames) > 0 && (r.Intn(2) == 0 || (h%2 == 1 && s == 1)) { // ... and goes on with an override
						cp := gonnx.Tensors{}
						for k, t := range in {
							cp[k] = t
						}
						if reusedOv == nil {
							reusedOv = fm.mkOverrides()
						}
						ov := fm.mkOverrides()
						if r.Intn(2) == 0 { // the same override objects as in an earlier call, refilled in place
							var ts []tensor.Tensor
							for _, t := range reusedOv {
								ts = append(ts, t)
							}
							rotateInPlace(ts)
							ov = reusedOv
						}
						for k, t := range ov {
							cp[k] = t
						}
						in = cp
					}
					before := map[string]string{}
					for k, t := range in {
						before[k] = snapT(t)
					}
					out, err, pan := runRec(shared, in)
					if pan {
						hist.Violations = append(hist.Violations, fmt.Sprintf("%s: Run %d of a history panicked: %v", fm.op, s, err))
						return
					}
					for k, t := range in {
						if after := snapT(t); after != before[k] {
							hist.Violations = append(hist.Violations, fmt.Sprintf("%s (inputs %v as weights from %d): Run %d modified the caller's tensor %s: %s -> %s", fm.op, fm.inNames, len(fm.inNames), s, k, before[k], after))
							return
						}
					}
					if p := paramSnap(shared); p != p0 {
						hist.Violations = append(hist.Violations, fmt.Sprintf("%s: Run %d altered the model's weights: %s -> %s", fm.op, s, p0, p))
						return
					}
					// the same call on a freshly loaded model with pristine copies of the same inputs
					fresh, _ := gonnx.NewModelFromBytes(fm.bytes)
					fin := gonnx.Tensors{}
					pristine := fm.mkInputs()
					for k := range in {
						if t, ok := pristine[k]; ok && before[k] == snapT(t) {
							fin[k] = t
						} else {
							fin[k] = in[k].Clone().(tensor.Tensor) // perturbed (wrong rank) or refilled tensors: a copy of what was passed
						}
					}
					fout, ferr, _ := runRec(fresh, fin)
					a, b := outSnap(out, err, fm.outNames), outSnap(fout, ferr, fm.outNames)
					var ks []string
					for k := range in {
						ks = append(ks, k+"="+before[k])
					}
					sort.Strings(ks)
					key := fmt.Sprintf("%d|%s", mi, strings.Join(ks, "|"))
					if first, ok := firstSeen[key]; !ok {
						firstSeen[key] = a
					} else if first != a {
						hist.Violations = append(hist.Violations, fmt.Sprintf("%s: Run %d of a history gives another result than the FIRST Run ever made with these input values on this model: %.300s  vs first  %.300s", fm.op, s, a, first))
						return
					}
					if a != b {
						hist.Violations = append(hist.Violations, fmt.Sprintf("%s: Run %d of a history differs from a fresh Model on the same inputs: %s  vs fresh  %s", fm.op, s, a, b))
						return
					}
				}
			}()
		}
	}
	// ---- stream 3: the SIZE of a dynamic axis changes from Run to Run on one Model ----
	sizes := goOnlyResult{Stream: "C02_batch_size_histories", Rule: "the loadable sample models and the generated batch models of C16 (inputs declared with named dynamic dimensions, several inputs sharing a name): Runs on ONE Model with batch sizes 2, 1, 3, then a failing call (an input missing), then 1, 4, 2 -- every Run compared bit for bit with the same call on a freshly loaded Model (nothing learnt from one call's sizes may bind the next)", Violations: []string{}}
	type sizedModel struct {
		name  string
		bytes []byte
		outs  []string
		mk    func(n int) gonnx.Tensors
	}
	var sized []sizedModel
	for _, sm := range sampleModels(tier == "thorough") {
		sm := sm
		sized = append(sized, sizedModel{name: "sample:" + sm.name, bytes: sm.bytes, outs: sm.outputs, mk: func(n int) gonnx.Tensors { return sm.mkInputs(n, n) }})
	}
	for _, bm := range generatedBatchModels(rand.New(rand.NewSource(seed + 5))) {
		bm := bm
		rr := rand.New(rand.NewSource(seed + 9))
		sized = append(sized, sizedModel{name: bm.name, bytes: bm.bytes, outs: bm.outputs, mk: func(n int) gonnx.Tensors {
			t := gonnx.Tensors{}
			for i, x := range bm.mk(n, rr) {
				t[bm.inputs[i]] = x
			}
			return t
		}})
	}
	for _, sm := range sized {
		shared, err := gonnx.NewModelFromBytes(sm.bytes)
		if err != nil {
			continue
		}
		for step, n := range []int{2, 1, 3, -1, 1, 4, 2} {
			sizes.N++
			var in gonnx.Tensors
			if n < 0 { // the failing call
				in = sm.mk(2)
				for k := range in {
					delete(in, k)
					break
				}
			} else {
				in = sm.mk(n)
			}
			fin := gonnx.Tensors{}
			for k, t := range in {
				fin[k] = t.Clone().(tensor.Tensor)
			}
			out, err, _ := runRec(shared, in)
			fresh, ferr0 := gonnx.NewModelFromBytes(sm.bytes)
			if ferr0 != nil {
				break
			}
			fout, ferr, _ := runRec(fresh, fin)
			if a, b := outSnap(out, err, sm.outs), outSnap(fout, ferr, sm.outs); a != b {
				if len(sizes.Violations) < 10 {
					sizes.Violations = append(sizes.Violations, fmt.Sprintf("%s: Run %d of the history (batch size %d after other sizes) differs from a fresh Model on the same inputs: %.300s  vs fresh  %.300s", sm.name, step, n, a, b))
				}
				break
			}
		}
	}
	sizes.Distinct = sizes.N
	meta.GoOnly = append(meta.GoOnly, sizes)
	if len(hist.Violations) > 25 {
		hist.Violations = hist.Violations[:25]
	}
	hist.Distinct = hist.N
	meta.GoOnly = append(meta.GoOnly, hist)
	count("history_models", fmt.Sprint(len(models)))
}

func attrFromProto(a *onnx.AttributeProto) attr {
	switch a.Type {
	case onnx.AttributeProto_INT:
		return aInt(a.Name, a.I)
	case onnx.AttributeProto_INTS:
		return aInts(a.Name, a.Ints)
	case onnx.AttributeProto_FLOAT:
		return aFloat(a.Name, a.F)
	case onnx.AttributeProto_FLOATS:
		return aFloats(a.Name, a.Floats)
	case onnx.AttributeProto_STRING:
		return aStr(a.Name, string(a.S))
	case onnx.AttributeProto_STRINGS:
		var ss []string
		for _, s := range a.Strings {
			ss = append(ss, string(s))
		}
		return aStrs(a.Name, ss)
	}
	return aStr(a.Name, "<tensor>")
}

// like observe, but with the node's output names (LSTM/GRU/RNN look at them)
func observeWithOutputs(op string, attrs []*onnx.AttributeProto, outputs []string, ins []tensor.Tensor) (obs string) {
	defer func() {
		if r := recover(); r != nil {
			obs = "OPanic"
		}
	}()
	o, err := opset13.GetOperator(op)
	if err != nil {
		return "(OErr " + ekind(err) + ")"
	}
	if err := o.Init(&onnx.NodeProto{Attribute: attrs, Output: outputs}); err != nil {
		return "(OErr " + ekind(err) + ")"
	}
	v, err := o.ValidateInputs(ins)
	if err != nil {
		return "(OErr " + ekind(err) + ")"
	}
	out, err := o.Apply(v)
	if err != nil {
		return "(OErr " + ekind(err) + ")"
	}
	parts := make([]string, len(out))
	for i, t := range out {
		parts[i] = tval(t)
	}
	return "(OOk [" + strings.Join(parts, ";") + "])"
}
