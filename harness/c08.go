package main

import (
	"fmt"
	"math"
	"math/rand"

	"gorgonia.org/tensor"
)

// set by opEmitter.emit for every fourth Gather / Slice case: the index tensors (indices; starts, ends,
// axes, steps) are int32 instead of int64 -- both are legal in ONNX and accepted by the gates
var idxAsInt32 = false

func i64t(shape []int, vals []int64) tensor.Tensor {
	if idxAsInt32 {
		fits := true
		for _, v := range vals {
			if v > math.MaxInt32 || v < math.MinInt32 {
				fits = false
			}
		}
		if fits {
			v32 := make([]int32, len(vals))
			for i, v := range vals {
				v32[i] = int32(v)
			}
			if len(shape) == 0 {
				return tensor.New(tensor.FromScalar(v32[0]))
			}
			return tensor.New(tensor.WithShape(shape...), tensor.WithBacking(v32))
		}
	}
	if len(shape) == 0 {
		return tensor.New(tensor.FromScalar(vals[0]))
	}
	return tensor.New(tensor.WithShape(shape...), tensor.WithBacking(append([]int64{}, vals...)))
}

// opEmitter: the data tensor's dtype must be the same in the run and the printed copy, so the
// round-robin counter is frozen for the duration of one emit
type opEmitter struct {
	cw   *caseWriter
	k    int
	also func(op string, attrs []attr, mk func() []tensor.Tensor)
}

func (e *opEmitter) emit(op string, attrs []attr, mk func() []tensor.Tensor) {
	idxAsInt32 = (op == "Gather" || op == "Slice") && e.k%4 == 3
	emitOp(e.cw, op, attrs, mk)
	if e.also != nil {
		e.also(op, attrs, mk)
	}
	idxAsInt32 = false
	e.k++
}

func genC08(dir, tier string, seed int64) {
	rnd := rand.New(rand.NewSource(seed))
	maxRank, keep := 3, 5
	if tier == "thorough" {
		maxRank, keep = 3, 1
	}
	raw := newCaseWriter(dir, "C08_ops", opHeader("CheckC08"), opFooter,
		fmt.Sprintf("bounded-exhaustive: all data shapes of rank 1..%d with extents 1..3 (and six shapes with an extent of 5, 9 or 17) x (Transpose: all permutations, non-permutations (all zeros, a repeated entry, an entry r, r+1 or -1 at every position), a too-short and a too-long perm, default; Concat: every axis in [-r-1,r] with 1..3 inputs incl. one differing extent per axis and inputs of two different element types; Gather: every axis in [-r-1,r], index tensors of shape (),(1),(2),(2,2),(1,3) with positive, negative and out-of-range indices; Expand: every target shape of rank 1..3; Slice: every axis in both spellings (and the same axis shifted out of range by r and 2r on either side) x all (start,end) in [-d-2,d+2]^2 x steps {1,2,3,-1} + INT64 extremes + all two-axis slices of rank-2 data); five data shapes of rank 4 and 5 x Gather along every axis in both spellings with index tensors of rank 0..2 in descending order, and the transposes of two neighbouring axes; index-coded data, dtype round-robin over all 14 element types, every Transpose / Concat / Gather case additionally as int64 and as float32; index tensors int32 instead of int64 in every fourth Gather / Slice case; quick tier keeps a seeded 1/%d sample of the Slice sweep of rank 3 and of Expand", maxRank, keep), tier == "thorough", 1200)
	cw := &opEmitter{cw: raw}
	bigShape := false // set for the shapes with an extent above 3: their Slice sweep is sampled 1 in 12
	sel := func(rk int) bool {
		if bigShape {
			return rnd.Intn(12) == 0
		}
		return rk <= 2 || keep == 1 || rnd.Intn(keep) == 0
	}
	// the data dtype goes round-robin over all 14; Transpose / Concat / Gather cases are emitted twice more,
	// as int64 and as float32 (dtForce), so that every shape of theirs meets the two commonest types
	dtForce := -1
	f32t := func(s []int) tensor.Tensor {
		if dtForce >= 0 {
			return mkT(dtypes[dtForce], s, iota64(numel(s), 100))
		}
		return mkT(dtypes[cw.k%14], s, iota64(numel(s), 100))
	}
	i64idx, f32idx := -1, -1
	for i, d := range dtypes {
		if d == tensor.Int64 {
			i64idx = i
		}
		if d == tensor.Float32 {
			f32idx = i
		}
	}
	cw.also = func(op string, attrs []attr, mk func() []tensor.Tensor) {
		if op != "Transpose" && op != "Concat" && op != "Gather" {
			return
		}
		for _, f := range []int{i64idx, f32idx} {
			if f < 0 || f == cw.k%14 {
				continue
			}
			dtForce = f
			emitOp(cw.cw, op, attrs, mk)
			dtForce = -1
		}
	}
	_ = f32t
	perms := map[int][][]int64{1: {{0}}, 2: {{0, 1}, {1, 0}}, 3: {{0, 1, 2}, {0, 2, 1}, {1, 0, 2}, {1, 2, 0}, {2, 0, 1}, {2, 1, 0}}}
	shapes := append(shapesUpToRank(1, maxRank, []int{1, 2, 3}), [][]int{{5}, {9}, {17}, {2, 9}, {9, 2}, {2, 5, 3}}...)
	// matrices with more than 16 rows or columns (not multiples of 16): tiled transposes have a remainder
	for _, s := range [][]int{{17, 2}, {20, 3}, {2, 33}, {33, 18}} {
		s := s
		for _, di := range []int{i64idx, f32idx, 6} {
			dtForce = di
			emitOp(raw, "Transpose", []attr{aInts("perm", []int64{1, 0})}, func() []tensor.Tensor { return []tensor.Tensor{f32t(s)} })
			emitOp(raw, "Transpose", nil, func() []tensor.Tensor { return []tensor.Tensor{f32t(s)} })
			dtForce = -1
		}
	}
	// data of rank 4 and 5: Gather along every axis (both spellings) with index tensors of rank 0..2 whose
	// values are NOT in ascending order, and the transposes that swap two neighbouring axes
	for _, s := range [][]int{{2, 1, 3, 2}, {1, 2, 2, 3}, {2, 2, 2, 2}, {3, 2, 1, 4}, {2, 1, 2, 1, 3}} {
		s := s
		r := len(s)
		for a := -r; a < r; a++ {
			ax := a
			if ax < 0 {
				ax += r
			}
			d := int64(s[ax])
			for _, is := range [][]int{{}, {2}, {3}, {2, 2}} {
				is := is
				idx := make([]int64, numel(is))
				for i := range idx {
					idx[i] = (d - 1 - int64(i)%d) // descending, then wrapping
					if i%3 == 2 {
						idx[i] -= d // the same position in its negative spelling
					}
				}
				cw.emit("Gather", []attr{aInt("axis", int64(a))}, func() []tensor.Tensor { return []tensor.Tensor{f32t(s), i64t(is, idx)} })
			}
		}
		for k := 0; k+1 < r; k++ {
			p := make([]int64, r)
			for i := range p {
				p[i] = int64(i)
			}
			p[k], p[k+1] = p[k+1], p[k]
			cw.emit("Transpose", []attr{aInts("perm", p)}, func() []tensor.Tensor { return []tensor.Tensor{f32t(s)} })
		}
	}
	for _, s := range shapes {
		s := s
		r := len(s)
		bigShape = false
		for _, d := range s {
			if d > 3 {
				bigShape = true
			}
		}
		one := func() []tensor.Tensor { return []tensor.Tensor{f32t(s)} }
		for _, p := range perms[r] {
			cw.emit("Transpose", []attr{aInts("perm", p)}, one)
		}
		if r >= 2 {
			cw.emit("Transpose", []attr{aInts("perm", make([]int64, r))}, one)
			cw.emit("Transpose", []attr{aInts("perm", perms[r-1][0])}, one)
		}
		// perms that are not permutations of 0..r-1: one entry out of range (r, r+1, -1) at every
		// position, a repeated entry, a too long list -- on every shape, the unit-extent ones included
		for pos := 0; pos < r; pos++ {
			for _, bad := range []int64{int64(r), int64(r + 1), -1} {
				p := append([]int64{}, perms[r][len(perms[r])-1]...)
				p[pos] = bad
				cw.emit("Transpose", []attr{aInts("perm", p)}, one)
			}
		}
		if r >= 2 {
			p := append([]int64{}, perms[r][0]...)
			p[r-1] = p[0]
			cw.emit("Transpose", []attr{aInts("perm", p)}, one)
		}
		cw.emit("Transpose", []attr{aInts("perm", append(append([]int64{}, perms[r][0]...), int64(r)))}, one)
		cw.emit("Transpose", nil, one)
		for a := -r - 1; a <= r; a++ {
			a64 := int64(a)
			for v := 0; v < r; v++ {
				o := append([]int{}, s...)
				o[v] = 1 + s[v]%3
				cw.emit("Concat", []attr{aInt("axis", a64)}, func() []tensor.Tensor { return []tensor.Tensor{f32t(s), f32t(o)} })
			}
			cw.emit("Concat", []attr{aInt("axis", a64)}, func() []tensor.Tensor { return []tensor.Tensor{f32t(s), f32t(s), f32t(s)} })
			cw.emit("Concat", []attr{aInt("axis", a64)}, one)
			// inputs of two different element types: refused (ONNX: one type for all inputs), never a panic
			if a == 0 {
				other := func(s []int) tensor.Tensor { return mkT(dtypes[(cw.k+3)%14], s, iota64(numel(s), 100)) }
				cw.emit("Concat", []attr{aInt("axis", a64)}, func() []tensor.Tensor { return []tensor.Tensor{f32t(s), other(s)} })
				cw.emit("Concat", []attr{aInt("axis", a64)}, func() []tensor.Tensor { return []tensor.Tensor{f32t(s), f32t(s), other(s)} })
			}
		}
		for a := -r - 1; a <= r; a++ {
			a64 := int64(a)
			ax := a
			if ax < 0 {
				ax += r
			}
			if ax < 0 || ax >= r {
				cw.emit("Gather", []attr{aInt("axis", a64)}, func() []tensor.Tensor { return []tensor.Tensor{f32t(s), i64t([]int{1}, []int64{0})} })
				continue
			}
			d := int64(s[ax])
			for _, is := range [][]int{{}, {1}, {2}, {2, 2}, {1, 3}} {
				is := is
				n := numel(is)
				for variant := 0; variant < 3; variant++ {
					idx := make([]int64, n)
					for i := range idx {
						switch variant {
						case 0:
							idx[i] = int64(i*2+1) % d
						case 1:
							idx[i] = -(int64(i)%d + 1)
						default:
							if i%2 == 0 {
								idx[i] = d
							} else {
								idx[i] = -d - 1
							}
						}
					}
					cw.emit("Gather", []attr{aInt("axis", a64)}, func() []tensor.Tensor { return []tensor.Tensor{f32t(s), i64t(is, idx)} })
				}
			}
		}
		for _, tgt := range shapesUpToRank(1, 3, []int{1, 2, 3}) {
			if !sel(r) {
				continue
			}
			t64 := make([]int64, len(tgt))
			for i, d := range tgt {
				t64[i] = int64(d)
			}
			cw.emit("Expand", nil, func() []tensor.Tensor { return []tensor.Tensor{f32t(s), i64t([]int{len(t64)}, t64)} })
		}
		for a := -r; a < r; a++ {
			ax := a
			if ax < 0 {
				ax += r
			}
			d := s[ax]
			for st := -d - 2; st <= d+2; st++ {
				for en := -d - 2; en <= d+2; en++ {
					for _, sp := range []int64{1, 2, 3, -1} {
						if sp != 1 && (st+en)%2 != 0 {
							continue
						}
						if !sel(r) {
							continue
						}
						st64, en64, a64, sp := int64(st), int64(en), int64(a), sp
						cw.emit("Slice", nil, func() []tensor.Tensor {
							return []tensor.Tensor{f32t(s), i64t([]int{1}, []int64{st64}), i64t([]int{1}, []int64{en64}), i64t([]int{1}, []int64{a64}), i64t([]int{1}, []int64{sp})}
						})
					}
				}
			}
			a64 := int64(a)
			// the same axis named out of range on either side (a - r, a - 2r, a + r, a + 2r): refused, never wrapped
			for _, off := range []int{-r, -2 * r, r, 2 * r} {
				ao := int64(a + off)
				if int(ao) >= -r && int(ao) < r {
					continue
				}
				cw.emit("Slice", nil, func() []tensor.Tensor {
					return []tensor.Tensor{f32t(s), i64t([]int{1}, []int64{0}), i64t([]int{1}, []int64{1}), i64t([]int{1}, []int64{ao})}
				})
			}
			for _, ext := range [][2]int64{{0, math.MaxInt64}, {1, math.MaxInt64}, {math.MinInt64, 2}, {0, math.MinInt64}} {
				ext := ext
				cw.emit("Slice", nil, func() []tensor.Tensor {
					return []tensor.Tensor{f32t(s), i64t([]int{1}, []int64{ext[0]}), i64t([]int{1}, []int64{ext[1]}), i64t([]int{1}, []int64{a64})}
				})
			}
		}
		if r == 2 {
			for s0 := 0; s0 <= s[0]; s0++ {
				for e0 := s0; e0 <= s[0]+1; e0++ {
					for s1 := 0; s1 <= s[1]; s1++ {
						for e1 := s1; e1 <= s[1]+1; e1++ {
							st, en := []int64{int64(s0), int64(s1)}, []int64{int64(e0), int64(e1)}
							cw.emit("Slice", nil, func() []tensor.Tensor { return []tensor.Tensor{f32t(s), i64t([]int{2}, st), i64t([]int{2}, en)} })
							cw.emit("Slice", nil, func() []tensor.Tensor {
								return []tensor.Tensor{f32t(s), i64t([]int{2}, []int64{st[1], st[0]}), i64t([]int{2}, []int64{en[1], en[0]}), i64t([]int{2}, []int64{-1, 0})}
							})
						}
					}
				}
			}
		}
	}
	raw.close()
}
