package main

import (
	"fmt"
	"math"
	"math/rand"

	"github.com/advancedclimatesystems/gonnx/onnx"
	"gorgonia.org/tensor"
)

// ONNX data type codes of the ten numeric types Cast knows
var castTypes = []struct {
	code int64
	dt   tensor.Dtype
	bits int
	sign bool
	flt  bool
}{
	{1, tensor.Float32, 32, true, true}, {11, tensor.Float64, 64, true, true},
	{3, tensor.Int8, 8, true, false}, {5, tensor.Int16, 16, true, false}, {6, tensor.Int32, 32, true, false}, {7, tensor.Int64, 64, true, false},
	{2, tensor.Uint8, 8, false, false}, {4, tensor.Uint16, 16, false, false}, {12, tensor.Uint32, 32, false, false}, {13, tensor.Uint64, 64, false, false},
}

func genC11(dir, tier string, seed int64) {
	r := rand.New(rand.NewSource(seed))
	reps := 3
	if tier == "thorough" {
		reps = 200
	}
	cw := newCaseWriter(dir, "C11_ops", opHeader("CheckC11"), opFooter,
		"Cast: all 10x10 numeric (source, target) pairs x value pools (integer extremes of the source, values around the extremes of the target, ties-to-even cases for int->float and float64->float32, +-0, subnormals, +-Inf, NaN for float targets; float->integer only with values whose truncation is representable in the target, incl. above 2^63 for uint64) x shapes of rank 0..3, plus unsupported target codes (every code in -4..48 outside the ten, the same plus 128, 256 and 65536, 32-bit wraps, the int64 extremes); ConstantOfShape: every element type as value x shapes rank 1..4 (and invalid: zero/negative extents, two-element value, unknown attribute); Constant: every attribute form (value tensor of every type and rank 0..3, value_float(s), value_int(s) -- zero scalars and all-zero lists included --, refused forms, wrong attribute counts)", false, 300)

	// ---------------- Cast ----------------
	for _, src := range castTypes {
		for _, dst := range castTypes {
			for rep := 0; rep < reps; rep++ {
				n := 1 + r.Intn(6)
				shape := []int{n}
				switch r.Intn(5) {
				case 0:
					shape, n = []int{}, 1
				case 1:
					shape, n = []int{1, n}, n
				case 2:
					shape, n = []int{2, 1, n}, 2*n
				}
				var x tensor.Tensor
				if src.flt {
					vals := make([]float64, n)
					for i := range vals {
						vals[i] = castFloatValue(r, src.bits, dst.bits, dst.sign, dst.flt)
					}
					if src.bits == 32 {
						d := make([]float32, n)
						for i, v := range vals {
							d[i] = float32(v)
							if !dst.flt { // keep the float32 value inside the target range after rounding to float32
								d[i] = float32(clampForTarget(float64(d[i]), dst.bits, dst.sign))
							}
						}
						x = tensor.New(tensor.WithShape(shape...), tensor.WithBacking(d))
						if len(shape) == 0 {
							x = tensor.New(tensor.FromScalar(d[0]))
						}
					} else {
						x = tensor.New(tensor.WithShape(shape...), tensor.WithBacking(vals))
						if len(shape) == 0 {
							x = tensor.New(tensor.FromScalar(vals[0]))
						}
					}
				} else {
					vals := make([]int64, n)
					for i := range vals {
						vals[i] = castIntValue(r, src.bits, src.sign)
					}
					x = mkT(src.dt, shape, vals)
				}
				emitOp(cw, "Cast", []attr{aInt("to", dst.code)}, func() []tensor.Tensor { return cloneAll([]tensor.Tensor{x}) })
				count("cast_pair", fmt.Sprintf("%v->%v", src.dt, dst.dt))
			}
		}
	}
	// unsupported targets, including codes that equal a supported one modulo 2^32
	unsupported := []int64{0, 8, 9, 10, 14, 15, 16, 99, -1, 1<<32 + 1, 1<<32 + 7, 1<<32 + 11, -(1 << 32) + 6, 1 << 33, math.MaxInt64, math.MinInt64 + 1}
	for c := int64(-4); c <= 48; c++ { // every code around the enum, in particular the first ones past its end (17.. : the float8 types of later ONNX releases)
		if c != 1 && c != 2 && c != 3 && c != 4 && c != 5 && c != 6 && c != 7 && c != 11 && c != 12 && c != 13 {
			unsupported = append(unsupported, c, c+128, c+256, c+1<<16)
		}
	}
	for i, code := range unsupported {
		x := mkT([]tensor.Dtype{tensor.Float32, tensor.Int64, tensor.Uint8, tensor.Float64}[i%4], []int{2}, []int64{1, 2})
		emitOp(cw, "Cast", []attr{aInt("to", code)}, func() []tensor.Tensor { return cloneAll([]tensor.Tensor{x}) })
	}
	emitOp(cw, "Cast", nil, func() []tensor.Tensor { return []tensor.Tensor{mkT(tensor.Float32, []int{2}, []int64{1, 2})} })
	emitOp(cw, "Cast", []attr{aInt("from", 1)}, func() []tensor.Tensor { return []tensor.Tensor{mkT(tensor.Float32, []int{2}, []int64{1, 2})} })

	// ---------------- ConstantOfShape ----------------
	valueProto := func(ti int, nvals int) (*onnx.TensorProto, tensor.Tensor) {
		tp, t := protoOfType(r, ti, nvals)
		return tp, t
	}
	for ti := 0; ti < 11; ti++ {
		for rep := 0; rep < reps+1; rep++ {
			rk := 1 + r.Intn(4)
			sh := make([]int64, rk)
			for i := range sh {
				sh[i] = int64(1 + r.Intn(3))
			}
			tp, t := valueProto(ti, 1)
			if rep%2 == 1 { // the one-element value as a rank-0 tensor
				tp.Dims = nil
				t, _ = onnx.TensorFromProto(tp)
			}
			a := attr{name: "value", kind: "tensor", tp: tp, t: t}
			emitOp(cw, "ConstantOfShape", []attr{a}, func() []tensor.Tensor { return []tensor.Tensor{i64v(sh)} })
		}
	}
	// one attribute set, a sequence of requested shapes that differ only in rank (also exercises one
	// instance applied several times, see the instance_reuse stream)
	for ti := 0; ti < 11; ti += 5 {
		tp, t := valueProto(ti, 1)
		a := attr{name: "value", kind: "tensor", tp: tp, t: t}
		for _, sh := range [][]int64{{4}, {4, 1}, {1, 4}, {2, 2}, {4}, {1, 1, 4}, {1, 5}, {5}, {5, 1}} {
			sh := sh
			emitOp(cw, "ConstantOfShape", []attr{a}, func() []tensor.Tensor { return []tensor.Tensor{i64v(sh)} })
		}
	}
	for _, sh := range [][]int64{{3}, {3, 1}, {1, 3}, {3}} {
		sh := sh
		emitOp(cw, "ConstantOfShape", nil, func() []tensor.Tensor { return []tensor.Tensor{i64v(sh)} })
	}
	emitOp(cw, "ConstantOfShape", nil, func() []tensor.Tensor { return []tensor.Tensor{i64v([]int64{2, 3})} })
	emitOp(cw, "ConstantOfShape", nil, func() []tensor.Tensor { return []tensor.Tensor{i64v([]int64{4})} })
	for _, bad := range [][]int64{{2, 0}, {-1, 2}, {0}} {
		bad := bad
		emitOp(cw, "ConstantOfShape", nil, func() []tensor.Tensor { return []tensor.Tensor{i64v(bad)} })
	}
	{
		tp, t := valueProto(0, 2) // two-element value
		emitOp(cw, "ConstantOfShape", []attr{{name: "value", kind: "tensor", tp: tp, t: t}}, func() []tensor.Tensor { return []tensor.Tensor{i64v([]int64{2})} })
		emitOp(cw, "ConstantOfShape", []attr{aInt("other", 1)}, func() []tensor.Tensor { return []tensor.Tensor{i64v([]int64{2})} })
	}

	// a `value` tensor the decoder refuses (unsupported element type, truncated raw data, payload that does not
	// match its dims, no payload at all): the node is refused, never given the default value instead
	for _, tp := range []*onnx.TensorProto{
		{DataType: 10, Dims: []int64{1}, RawData: []byte{0, 60}},
		{DataType: 16, Dims: []int64{1}, RawData: []byte{0, 60}},
		{DataType: 8, Dims: []int64{1}, StringData: [][]byte{[]byte("x")}},
		{DataType: 1, Dims: []int64{1}, RawData: []byte{0, 0, 128}},
		{DataType: 1, Dims: []int64{2}, FloatData: []float32{1}},
		{DataType: 7, Dims: []int64{1}},
		{DataType: 1, Dims: []int64{-1}, FloatData: []float32{1}},
	} {
		tp := tp
		why := "<a tensor the decoder refuses>"
		for _, nm := range []string{"value"} {
			a := attr{name: nm, kind: "str", s: &why, tp: tp}
			emitOp(cw, "ConstantOfShape", []attr{a}, func() []tensor.Tensor { return []tensor.Tensor{i64v([]int64{2})} })
			emitOp(cw, "Constant", []attr{a}, func() []tensor.Tensor { return nil })
		}
	}

	// ---------------- Constant ----------------
	for ti := 0; ti < 11; ti++ {
		for rep := 0; rep < reps+1; rep++ {
			rk := r.Intn(4)
			n := 1
			dims := make([]int64, rk)
			for i := range dims {
				dims[i] = int64(1 + r.Intn(3))
				n *= int(dims[i])
			}
			tp, _ := protoOfType(r, ti, n)
			tp.Dims = dims
			t, err := onnx.TensorFromProto(tp)
			if err != nil {
				continue
			}
			emitOp(cw, "Constant", []attr{{name: "value", kind: "tensor", tp: tp, t: t}}, func() []tensor.Tensor { return nil })
		}
	}
	for rep := 0; rep < reps+2; rep++ {
		f := specials32()[r.Intn(len(specials32()))]
		emitOp(cw, "Constant", []attr{aFloat("value_float", f)}, func() []tensor.Tensor { return nil })
		fs := []float32{f, float32(r.NormFloat64()), -f}
		emitOp(cw, "Constant", []attr{aFloats("value_floats", fs[:1+r.Intn(3)])}, func() []tensor.Tensor { return nil })
		iv := castIntValue(r, 64, true)
		emitOp(cw, "Constant", []attr{aInt("value_int", iv)}, func() []tensor.Tensor { return nil })
		is := []int64{iv, castIntValue(r, 64, true), 0}
		emitOp(cw, "Constant", []attr{aInts("value_ints", is[:1+r.Intn(3)])}, func() []tensor.Tensor { return nil })
	}
	// zero payloads: a zero scalar is a value like any other (in proto3 it is not even written to the wire)
	negZero := float32(math.Copysign(0, -1))
	for _, a := range []attr{aInt("value_int", 0), aFloat("value_float", 0), aFloat("value_float", negZero), aInts("value_ints", []int64{0}), aInts("value_ints", []int64{0, 0}), aFloats("value_floats", []float32{0}), aFloats("value_floats", []float32{negZero, 0})} {
		emitOp(cw, "Constant", []attr{a}, func() []tensor.Tensor { return nil })
	}
	for _, a := range []attr{aStr("value_string", "x"), aStrs("value_strings", []string{"x"}), aInt("sparse_value", 1), aInt("nonsense", 1)} {
		emitOp(cw, "Constant", []attr{a}, func() []tensor.Tensor { return nil })
	}
	emitOp(cw, "Constant", nil, func() []tensor.Tensor { return nil })
	emitOp(cw, "Constant", []attr{aInt("value_int", 1), aInt("value_int", 2)}, func() []tensor.Tensor { return nil })
	cw.close()
}

// a one-dimensional proto of element type number ti (the 11 loadable types) with n values
func protoOfType(r *rand.Rand, ti int, n int) (*onnx.TensorProto, tensor.Tensor) {
	tp := &onnx.TensorProto{Dims: []int64{int64(n)}}
	switch ti {
	case 0:
		tp.DataType = 1
		for i := 0; i < n; i++ {
			tp.FloatData = append(tp.FloatData, specials32()[r.Intn(len(specials32()))])
		}
	case 1:
		tp.DataType = 11
		for i := 0; i < n; i++ {
			tp.DoubleData = append(tp.DoubleData, specials64()[r.Intn(len(specials64()))])
		}
	case 2, 3, 4, 7, 8: // int8 int16 int32 uint8 uint16 : int32 carrier
		codes := map[int]int32{2: 3, 3: 5, 4: 6, 7: 2, 8: 4}
		bits := map[int]int{2: 8, 3: 16, 4: 32, 7: 8, 8: 16}
		tp.DataType = codes[ti]
		for i := 0; i < n; i++ {
			tp.Int32Data = append(tp.Int32Data, int32(castIntValue(r, bits[ti], ti < 7)))
		}
	case 5:
		tp.DataType = 7
		for i := 0; i < n; i++ {
			tp.Int64Data = append(tp.Int64Data, castIntValue(r, 64, true))
		}
	case 6:
		tp.DataType = 9 // bool
		for i := 0; i < n; i++ {
			tp.Int32Data = append(tp.Int32Data, int32(r.Intn(2)))
		}
	case 9:
		tp.DataType = 12
		for i := 0; i < n; i++ {
			tp.Uint64Data = append(tp.Uint64Data, uint64(castIntValue(r, 32, false)))
		}
	case 10:
		tp.DataType = 13
		for i := 0; i < n; i++ {
			tp.Uint64Data = append(tp.Uint64Data, uint64(castIntValue(r, 64, false)))
		}
	}
	t, err := onnx.TensorFromProto(tp)
	if err != nil {
		return tp, nil
	}
	return tp, t
}

// an integer of the given width: extremes, small values, random (returned as int64 bit pattern for uint64)
func castIntValue(r *rand.Rand, bits int, signed bool) int64 {
	var lo, hi int64
	if signed {
		lo, hi = -(1 << (bits - 1)), (1<<(bits-1))-1
		if bits == 64 {
			lo, hi = math.MinInt64, math.MaxInt64
		}
	} else {
		lo, hi = 0, (1<<bits)-1
		if bits == 64 {
			switch r.Intn(6) {
			case 0:
				return -1 // max uint64
			case 1:
				return math.MinInt64 // 2^63
			case 2:
				return math.MinInt64 + 1 + int64(r.Intn(1000))
			}
			lo, hi = 0, math.MaxInt64
		}
	}
	switch r.Intn(9) {
	case 0:
		return lo
	case 1:
		return hi
	case 2:
		return 0
	case 3:
		if signed {
			return -1
		}
		return 1
	case 4: // values that need rounding when converted to float32 / float64
		c := []int64{16777217, 16777219, 33554434, 9007199254740993, 9007199254740995, 123456789, 4611686018427387905}
		v := c[r.Intn(len(c))]
		if v > hi {
			v = hi - 1
		}
		if signed && r.Intn(2) == 0 {
			v = -v
		}
		return v
	case 5:
		return lo + int64(r.Intn(3))
	case 6:
		return hi - int64(r.Intn(3))
	}
	span := hi/2 - lo/2
	if span <= 0 {
		return 0
	}
	return lo/2 + r.Int63n(span)*2/2 + r.Int63n(2)
}

func clampForTarget(v float64, bits int, signed bool) float64 {
	if v != v {
		return 0
	}
	var lo, hi float64
	if signed {
		lo, hi = -math.Ldexp(1, bits-1), math.Ldexp(1, bits-1)
	} else {
		lo, hi = 0, math.Ldexp(1, bits)
	}
	t := math.Trunc(v)
	if t < lo || t >= hi {
		return 0
	}
	return v
}

// a float value to be cast: anything for float targets; for integer targets only values whose
// truncation is representable in the target (anything else is implementation-defined in Go)
func castFloatValue(r *rand.Rand, srcBits, dstBits int, dstSigned, dstFloat bool) float64 {
	if dstFloat {
		c := []float64{0, math.Copysign(0, -1), 1, -1, math.Inf(1), math.Inf(-1), math.NaN(), 1e-45, 1e-40, 1e-320, 5e-324,
			math.MaxFloat32, math.MaxFloat64, 3.5e38, 1 + math.Ldexp(1, -24), 1 + math.Ldexp(1, -24) + math.Ldexp(1, -50), 1 + 3*math.Ldexp(1, -24),
			math.Ldexp(1, -149), math.Ldexp(1, -150), math.Ldexp(3, -150), 0.1, -2.5, 1e10, r.NormFloat64() * 100, r.NormFloat64()}
		return c[r.Intn(len(c))]
	}
	var lo, hi float64
	if dstSigned {
		lo, hi = -math.Ldexp(1, dstBits-1), math.Ldexp(1, dstBits-1)
	} else {
		lo, hi = 0, math.Ldexp(1, dstBits)
	}
	var v float64
	switch r.Intn(8) {
	case 0:
		v = 0
	case 1:
		v = math.Copysign(0, -1)
	case 2:
		v = []float64{0.5, -0.5, 1.5, -1.5, 2.5, -2.5, 0.999, -0.999}[r.Intn(8)]
	case 3:
		v = hi - 0.5 - float64(r.Intn(3)) // just below the upper bound
		if dstBits >= 32 {
			v = hi * (1 - math.Ldexp(1, -20))
		}
	case 4:
		v = lo + 0.5 + float64(r.Intn(2)) - 1 // around the lower bound (truncation brings -128.5 to -128)
		if dstBits >= 32 {
			v = lo * (1 - math.Ldexp(1, -20))
		}
	case 5:
		v = hi/2 + hi/4 // above 2^63 for uint64, above 2^31 for uint32
	default:
		v = lo + r.Float64()*(hi-lo)
	}
	return clampForTarget(v, dstBits, dstSigned)
}
