package main

import (
	"fmt"
	"math"
	"strings"

	"google.golang.org/protobuf/proto"
	"google.golang.org/protobuf/reflect/protoreflect"
)

// Generic field-level mutation of a protobuf message tree (protoreflect): for EVERY message of the
// tree and EVERY field of its descriptor (set or not), a list of variants by field kind. Used by the
// C18 bytes stream ("every field of every initializer and value-info perturbed") so that no field is
// left out by a hand-written list.

// the k-th message of the tree in depth-first order (nil when k is out of range)
func nthMessage(m protoreflect.Message, k *int) protoreflect.Message {
	if *k == 0 {
		return m
	}
	*k--
	var found protoreflect.Message
	m.Range(func(fd protoreflect.FieldDescriptor, v protoreflect.Value) bool {
		switch {
		case fd.IsMap():
		case fd.IsList() && fd.Message() != nil:
			l := v.List()
			for i := 0; i < l.Len() && found == nil; i++ {
				found = nthMessage(l.Get(i).Message(), k)
			}
		case fd.Message() != nil:
			found = nthMessage(v.Message(), k)
		}
		return found == nil
	})
	return found
}

func countMessages(m protoreflect.Message) int {
	n := 1
	m.Range(func(fd protoreflect.FieldDescriptor, v protoreflect.Value) bool {
		switch {
		case fd.IsMap():
		case fd.IsList() && fd.Message() != nil:
			l := v.List()
			for i := 0; i < l.Len(); i++ {
				n += countMessages(l.Get(i).Message())
			}
		case fd.Message() != nil:
			n += countMessages(v.Message())
		}
		return true
	})
	return n
}

// scalar variants of one kind
func scalarVariants(fd protoreflect.FieldDescriptor) []protoreflect.Value {
	switch fd.Kind() {
	case protoreflect.Int32Kind, protoreflect.Sint32Kind, protoreflect.Sfixed32Kind:
		return []protoreflect.Value{protoreflect.ValueOfInt32(0), protoreflect.ValueOfInt32(1), protoreflect.ValueOfInt32(-1), protoreflect.ValueOfInt32(math.MaxInt32), protoreflect.ValueOfInt32(math.MinInt32), protoreflect.ValueOfInt32(7)}
	case protoreflect.Int64Kind, protoreflect.Sint64Kind, protoreflect.Sfixed64Kind:
		return []protoreflect.Value{protoreflect.ValueOfInt64(0), protoreflect.ValueOfInt64(1), protoreflect.ValueOfInt64(-1), protoreflect.ValueOfInt64(math.MaxInt64), protoreflect.ValueOfInt64(math.MinInt64), protoreflect.ValueOfInt64(1 << 32), protoreflect.ValueOfInt64(3)}
	case protoreflect.Uint32Kind, protoreflect.Fixed32Kind:
		return []protoreflect.Value{protoreflect.ValueOfUint32(0), protoreflect.ValueOfUint32(1), protoreflect.ValueOfUint32(math.MaxUint32)}
	case protoreflect.Uint64Kind, protoreflect.Fixed64Kind:
		return []protoreflect.Value{protoreflect.ValueOfUint64(0), protoreflect.ValueOfUint64(1), protoreflect.ValueOfUint64(math.MaxUint64)}
	case protoreflect.FloatKind:
		return []protoreflect.Value{protoreflect.ValueOfFloat32(0), protoreflect.ValueOfFloat32(float32(math.NaN())), protoreflect.ValueOfFloat32(float32(math.Inf(-1))), protoreflect.ValueOfFloat32(-1.5)}
	case protoreflect.DoubleKind:
		return []protoreflect.Value{protoreflect.ValueOfFloat64(0), protoreflect.ValueOfFloat64(math.NaN()), protoreflect.ValueOfFloat64(math.Inf(1)), protoreflect.ValueOfFloat64(-1.5)}
	case protoreflect.BoolKind:
		return []protoreflect.Value{protoreflect.ValueOfBool(false), protoreflect.ValueOfBool(true)}
	case protoreflect.StringKind:
		return []protoreflect.Value{protoreflect.ValueOfString(""), protoreflect.ValueOfString("x"), protoreflect.ValueOfString(strings.Repeat("n", 300)), protoreflect.ValueOfString("\x00/")}
	case protoreflect.BytesKind:
		return []protoreflect.Value{protoreflect.ValueOfBytes(nil), protoreflect.ValueOfBytes([]byte{1}), protoreflect.ValueOfBytes([]byte{1, 2, 3, 4, 5, 6, 7}), protoreflect.ValueOfBytes(make([]byte, 64))}
	case protoreflect.EnumKind:
		var vs []protoreflect.Value
		ev := fd.Enum().Values()
		for i := 0; i < ev.Len(); i++ {
			vs = append(vs, protoreflect.ValueOfEnum(ev.Get(i).Number()))
		}
		return append(vs, protoreflect.ValueOfEnum(999), protoreflect.ValueOfEnum(-1))
	}
	return nil
}

// number of variants of field fd in message m (depends on the current value for bytes/lists)
func fieldVariantCount(fd protoreflect.FieldDescriptor) int {
	switch {
	case fd.IsMap():
		return 1
	case fd.IsList() && fd.Message() != nil:
		return 5
	case fd.IsList():
		return 4 + len(scalarVariants(fd))
	case fd.Message() != nil:
		return 2
	case fd.Kind() == protoreflect.BytesKind:
		return 3 + len(scalarVariants(fd))
	default:
		return 1 + len(scalarVariants(fd))
	}
}

// apply variant v of field fd to message m (in place); returns a description
func applyFieldVariant(m protoreflect.Message, fd protoreflect.FieldDescriptor, v int) string {
	name := string(m.Descriptor().Name()) + "." + string(fd.Name())
	switch {
	case fd.IsMap():
		m.Clear(fd)
		return name + " cleared"
	case fd.IsList():
		l := m.Mutable(fd).List()
		switch v {
		case 0:
			m.Clear(fd)
			return name + " emptied"
		case 1:
			l.Append(l.NewElement())
			return name + " + a zero element"
		case 2:
			if l.Len() > 0 {
				l.Truncate(l.Len() - 1)
			}
			return name + " minus its last element"
		case 3:
			if l.Len() > 0 {
				if fd.Message() != nil {
					l.Append(protoreflect.ValueOfMessage(proto.Clone(l.Get(0).Message().Interface()).ProtoReflect()))
				} else {
					l.Append(l.Get(0))
				}
			}
			return name + " + a copy of its first element"
		default:
			if fd.Message() != nil { // variant 4: the first element replaced by an empty message
				if l.Len() > 0 {
					l.Set(0, l.NewElement())
				}
				return name + "[0] replaced by an empty message"
			}
			sv := scalarVariants(fd)[v-4]
			if l.Len() > 0 {
				l.Set(l.Len()/2, sv)
			} else {
				l.Append(sv)
			}
			return fmt.Sprintf("%s[mid] := %v", name, sv)
		}
	case fd.Message() != nil:
		if v == 0 {
			m.Clear(fd)
			return name + " cleared"
		}
		m.Set(fd, protoreflect.ValueOfMessage(m.NewField(fd).Message()))
		return name + " := empty message"
	case fd.Kind() == protoreflect.BytesKind && v < 3:
		b := append([]byte{}, m.Get(fd).Bytes()...)
		switch v {
		case 0:
			if len(b) > 0 {
				b = b[:len(b)-1]
			}
			m.Set(fd, protoreflect.ValueOfBytes(b))
			return name + " minus one byte"
		case 1:
			m.Set(fd, protoreflect.ValueOfBytes(append(b, 0x7f)))
			return name + " plus one byte"
		default:
			m.Set(fd, protoreflect.ValueOfBytes(append(b, b...)))
			return name + " doubled"
		}
	default:
		off := 1
		if fd.Kind() == protoreflect.BytesKind {
			off = 3
		}
		if fd.Kind() != protoreflect.BytesKind && v == 0 {
			m.Clear(fd)
			return name + " cleared"
		}
		sv := scalarVariants(fd)[v-off]
		m.Set(fd, sv)
		return fmt.Sprintf("%s := %v", name, clip(fmt.Sprint(sv), 40))
	}
}

// every single-field mutant of root: f is called with the marshalled mutant and its description
func forEachFieldMutant(root proto.Message, limit int, f func(b []byte, what string)) int {
	n := countMessages(root.ProtoReflect())
	made := 0
	for k := 0; k < n; k++ {
		kk := k
		om := nthMessage(root.ProtoReflect(), &kk)
		if om == nil {
			continue
		}
		fds := om.Descriptor().Fields()
		for i := 0; i < fds.Len(); i++ {
			fd := fds.Get(i)
			for v := 0; v < fieldVariantCount(fd); v++ {
				if limit > 0 && made >= limit {
					return made
				}
				c := proto.Clone(root)
				kk := k
				cm := nthMessage(c.ProtoReflect(), &kk)
				if cm == nil {
					continue
				}
				what := func() (w string) {
					defer func() {
						if r := recover(); r != nil {
							w = ""
						}
					}()
					return applyFieldVariant(cm, fd, v)
				}()
				if what == "" {
					continue
				}
				b, err := proto.Marshal(c)
				if err != nil {
					continue
				}
				made++
				f(b, fmt.Sprintf("message #%d: %s", k, what))
			}
		}
	}
	return made
}
