package main

import (
	"fmt"
	"math/rand"
	"reflect"
	"sort"

	"github.com/advancedclimatesystems/gonnx"
	"github.com/advancedclimatesystems/gonnx/onnx"
	"google.golang.org/protobuf/proto"
	"gorgonia.org/tensor"
)

func genC13(dir, tier string, seed int64) {
	r := rand.New(rand.NewSource(seed))
	n := 1200
	if tier == "thorough" {
		n = 80000
	}
	hdr := "From Coq Require Import List String ZArith.\nFrom V Require Import Case Run CheckC01 CheckC13.\nImport ListNotations.\nOpen Scope string_scope.\nOpen Scope Z_scope.\nDefinition cases : list scase := ["
	cw := newCaseWriter(dir, "C13_signatures", hdr, opFooter,
		"seeded random signatures: 1..3 declared inputs of rank 1..4, each dimension fixed (1..4; one in 25 negative, which no tensor satisfies), symbolic or unspecified; 0..3 of them (neighbours in the declaration) shadowed by initializers; one node reads every input, except (one case in three) a further declared input that no node reads; supplied sets: exact (dynamic dimensions of random size), one tensor missing, an extra tensor, tensors swapped between names, rank -1/+1 (0..5), one axis off by one, initializer-shadowed input supplied or not", false, 300)
	intro := goOnlyResult{Stream: "C13_introspection_and_purity", Rule: "for every generated signature: InputNames/InputShapes/InputDimSize report exactly the declared names, ranks, fixed sizes and dynamic flags; a rejected Run returns no outputs and leaves every supplied tensor bit-identical", Violations: []string{}}
	for i := 0; i < n; i++ {
		c := &sgraphCase{initVals: map[string]stens{}, feed: map[string]stens{}, opset: 13}
		nIn := 1 + r.Intn(3)
		var names []string
		for k := 0; k < nIn; k++ {
			rank := 1 + r.Intn(4)
			in := sinput{name: fmt.Sprintf("in%d", k)}
			shape := make([]int, rank)
			for a := 0; a < rank; a++ {
				switch r.Intn(3) {
				case 0:
					v := int64(1 + r.Intn(4))
					shape[a] = int(v)
					if r.Intn(25) == 0 {
						// a negative dim_value: reported as a fixed size by the introspection methods, so
						// enforced as one (no tensor has it: every tensor is rejected)
						v = -int64(1 + r.Intn(3))
					}
					in.dims = append(in.dims, sdim{kind: "fixed", value: v})
				case 1:
					in.dims = append(in.dims, sdim{kind: "param", name: fmt.Sprintf("N%d", a)})
					shape[a] = 1 + r.Intn(5)
				default:
					in.dims = append(in.dims, sdim{kind: "none"})
					shape[a] = 1 + r.Intn(5)
				}
			}
			c.inputs = append(c.inputs, in)
			names = append(names, in.name)
			c.feed[in.name] = stens{shape, int64(100 + r.Intn(900))}
			c.feedOrd = append(c.feedOrd, in.name)
		}
		// an input shadowed by an initializer (a default): need not be supplied
		if r.Intn(3) == 0 {
			// ... one, or a run of two or three NEIGHBOURING declared inputs (weights and biases listed one after
			// the other, as older exporters write them)
			k := r.Intn(nIn)
			cnt := 1 + r.Intn(nIn-k)
			for j := k; j < k+cnt; j++ {
				nm := c.inputs[j].name
				c.inits = append(c.inits, nm)
				c.initVals[nm] = stens{c.feed[nm].shape, int64(2000 + r.Intn(900))}
				if r.Intn(2) == 0 {
					delete(c.feed, nm)
				}
			}
		}
		if r.Intn(3) == 0 {
			// initializers that are NOT inputs, as many as there are declared inputs (or one more / fewer): the
			// signature is enforced whatever the counts happen to be
			nInit := nIn + r.Intn(3) - 1
			for q := len(c.inits); q < nInit; q++ {
				nm := fmt.Sprintf("const%d", q)
				c.inits = append(c.inits, nm)
				c.initVals[nm] = stens{[]int{1}, int64(3000 + q)}
			}
		}
		c.nodes = []snode{{op: 1, attr: 3, nout: 1, in: append([]string{}, names...), out: []string{"y"}}}
		c.outputs = []string{"y"}
		// one case in three: a further declared input that NO node reads (a mask, a flag left in the
		// signature): it is required and checked like any other
		if r.Intn(3) == 0 {
			in := sinput{name: "dangling"}
			rank := 1 + r.Intn(3)
			shape := make([]int, rank)
			for a := 0; a < rank; a++ {
				if r.Intn(2) == 0 {
					v := int64(1 + r.Intn(4))
					in.dims = append(in.dims, sdim{kind: "fixed", value: v})
					shape[a] = int(v)
				} else {
					in.dims = append(in.dims, sdim{kind: "param", name: fmt.Sprintf("M%d", a)})
					shape[a] = 1 + r.Intn(5)
				}
			}
			c.inputs = append(c.inputs, in)
			names = append(names, in.name)
			c.feed[in.name] = stens{shape, int64(100 + r.Intn(900))}
			if r.Intn(2) == 0 { // perturbations below aim at it
				names = []string{in.name}
			}
		}
		// half of the cases: a Run with the exact, valid supplied set precedes the observed call on the
		// same Model (what Run enforces must not depend on earlier Runs)
		if r.Intn(2) == 0 {
			c.warm = map[string]stens{}
			for k, v := range c.feed {
				c.warm[k] = v
			}
		}
		// perturb the supplied set
		variant := r.Intn(8)
		pick := names[r.Intn(len(names))]
		switch variant {
		case 0, 1: // exact
		case 2: // missing
			delete(c.feed, pick)
		case 3: // extra tensor
			c.feed["unrelated"] = stens{[]int{2}, 1}
		case 4: // swapped between names
			if len(names) >= 2 {
				a, b := names[0], names[len(names)-1]
				ta, oka := c.feed[a]
				tb, okb := c.feed[b]
				if oka && okb {
					c.feed[a], c.feed[b] = tb, ta
				}
			}
		case 5: // rank -1
			if t, ok := c.feed[pick]; ok {
				c.feed[pick] = stens{t.shape[1:], t.val}
			}
		case 6: // rank +1
			if t, ok := c.feed[pick]; ok {
				c.feed[pick] = stens{append([]int{1 + r.Intn(2)}, t.shape...), t.val}
			}
		case 7: // one axis off by one
			if t, ok := c.feed[pick]; ok {
				s := append([]int{}, t.shape...)
				a := r.Intn(len(s))
				if s[a] > 1 && r.Intn(2) == 0 {
					s[a]--
				} else {
					s[a]++
				}
				c.feed[pick] = stens{s, t.val}
			}
		}
		c.feedOrd = nil
		for nm := range c.feed {
			c.feedOrd = append(c.feedOrd, nm)
		}
		sort.Strings(c.feedOrd)
		obs := c.observe()
		cw.write(c.gallina(obs))
		count("variant", fmt.Sprint(variant))
		count("observed", obs[1:8])
		count("n_inputs", fmt.Sprint(nIn))

		// introspection and purity, decided here
		intro.N++
		func() {
			defer func() {
				if rec := recover(); rec != nil {
					intro.Violations = append(intro.Violations, fmt.Sprintf("panic in introspection: %v on %s", rec, c.gallina("?")))
				}
			}()
			bts, _ := proto.Marshal(c.proto())
			m, err := gonnx.NewModelFromBytes(bts)
			if err != nil {
				return
			}
			var want []string
			for _, in := range c.inputs {
				want = append(want, in.name)
			}
			if !reflect.DeepEqual(m.InputNames(), want) {
				intro.Violations = append(intro.Violations, fmt.Sprintf("InputNames %v, declared %v", m.InputNames(), want))
			}
			shapes := m.InputShapes()
			for _, in := range c.inputs {
				sh := shapes[in.name]
				if len(sh) != len(in.dims) {
					intro.Violations = append(intro.Violations, fmt.Sprintf("InputShapes[%s] has rank %d, declared %d", in.name, len(sh), len(in.dims)))
					continue
				}
				for a, d := range in.dims {
					fixed := d.kind == "fixed"
					if sh[a].IsDynamic == fixed || (fixed && sh[a].Size != d.value) {
						intro.Violations = append(intro.Violations, fmt.Sprintf("InputShapes[%s][%d] = %+v, declared %+v", in.name, a, sh[a], d))
					}
					sz, err := m.InputDimSize(in.name, a)
					if err != nil || (fixed && int64(sz) != d.value) || (!fixed && sz != 0) {
						intro.Violations = append(intro.Violations, fmt.Sprintf("InputDimSize(%s,%d) = %d,%v, declared %+v", in.name, a, sz, err, d))
					}
				}
				if _, err := m.InputDimSize(in.name, len(in.dims)); err == nil {
					intro.Violations = append(intro.Violations, fmt.Sprintf("InputDimSize(%s,%d) beyond the rank returned no error", in.name, len(in.dims)))
				}
			}
			if _, err := m.InputDimSize("no_such_input", 0); err == nil {
				intro.Violations = append(intro.Violations, "InputDimSize of an undeclared input returned no error")
			}
			// purity of a rejected run
			m.GetOperator = symGetter
			in := gonnx.Tensors{}
			snap := map[string]string{}
			for nm, v := range c.feed {
				in[nm] = mkSym(v)
				snap[nm] = tval(in[nm])
			}
			out, err := m.Run(in)
			if err != nil && out != nil {
				intro.Violations = append(intro.Violations, "a rejected Run returned outputs")
			}
			for nm, t := range in {
				if tval(t) != snap[nm] {
					intro.Violations = append(intro.Violations, fmt.Sprintf("Run modified the supplied tensor %s: %s -> %s", nm, snap[nm], tval(t)))
				}
			}
		}()
	}
	cw.close()
	if len(intro.Violations) > 20 {
		intro.Violations = intro.Violations[:20]
	}
	meta.GoOnly = append(meta.GoOnly, intro)

	// declared element types: the signature is enforced on rank and fixed dimensions for inputs of every
	// element type (a `Shape` node reads the input, so the graph runs for any of them)
	et := goOnlyResult{Stream: "C13_element_types", Rule: "for each of the 11 supported element types T: a model whose input is declared T[N,3] (elem_type T) feeding a Shape node: a tensor of type T and shape (k,3), k = 1..3, is accepted and yields [k,3]; shapes (k,4), (3) and (k,3,1) are rejected with an error and no outputs", Violations: []string{}}
	codes := map[tensor.Dtype]int32{tensor.Float32: 1, tensor.Uint8: 2, tensor.Int8: 3, tensor.Uint16: 4, tensor.Int16: 5, tensor.Int32: 6, tensor.Int64: 7, tensor.Bool: 9, tensor.Float64: 11, tensor.Uint32: 12, tensor.Uint64: 13}
	for _, d := range dtypes {
		code, ok := codes[d]
		if !ok {
			continue
		}
		g := &onnx.GraphProto{Name: "g",
			Input: []*onnx.ValueInfoProto{{Name: "x", Type: &onnx.TypeProto{Value: &onnx.TypeProto_TensorType{TensorType: &onnx.TypeProto_Tensor{ElemType: code, Shape: &onnx.TensorShapeProto{Dim: []*onnx.TensorShapeProto_Dimension{
				{Value: &onnx.TensorShapeProto_Dimension_DimParam{DimParam: "N"}}, {Value: &onnx.TensorShapeProto_Dimension_DimValue{DimValue: 3}}}}}}}}},
			Output: []*onnx.ValueInfoProto{{Name: "y"}},
			Node:   []*onnx.NodeProto{{OpType: "Shape", Input: []string{"x"}, Output: []string{"y"}}}}
		b, _ := proto.Marshal(&onnx.ModelProto{IrVersion: 7, OpsetImport: []*onnx.OperatorSetIdProto{{Version: 13}}, Graph: g})
		m, err := gonnx.NewModelFromBytes(b)
		if err != nil {
			et.Violations = append(et.Violations, fmt.Sprintf("%v: model does not load: %v", d, err))
			continue
		}
		for k := 1; k <= 3; k++ {
			for _, shp := range [][]int{{k, 3}, {k, 4}, {3}, {k, 3, 1}} {
				et.N++
				good := len(shp) == 2 && shp[1] == 3
				out, err, pan := runRec(m, gonnx.Tensors{"x": mkT(d, shp, iota64(numel(shp), 0))})
				switch {
				case pan:
					et.Violations = append(et.Violations, fmt.Sprintf("%v %v: Run panicked", d, shp))
				case good && err != nil:
					et.Violations = append(et.Violations, fmt.Sprintf("a %v tensor of shape %v is rejected for an input declared %v[N,3]: %v", d, shp, d, err))
				case good && (out["y"] == nil || fmt.Sprint(out["y"].Data()) != fmt.Sprintf("[%d 3]", k)):
					et.Violations = append(et.Violations, fmt.Sprintf("%v %v: wrong result %v", d, shp, out["y"]))
				case !good && err == nil:
					et.Violations = append(et.Violations, fmt.Sprintf("a %v tensor of shape %v is accepted for an input declared %v[N,3]", d, shp, d))
				case !good && out != nil:
					et.Violations = append(et.Violations, fmt.Sprintf("%v %v: outputs returned together with the error", d, shp))
				}
			}
		}
	}
	et.Distinct = et.N
	meta.GoOnly = append(meta.GoOnly, et)
	_ = tensor.Float32
}
