package main

import (
	"os"

	"github.com/advancedclimatesystems/gonnx"
	"gorgonia.org/tensor"
)

// the repository's loadable sample models, with input builders parametrised by batch size
type sampleModel struct {
	name      string
	bytes     []byte
	inputs    []string
	shapes    func(n int) [][]int // input shapes for a batch of n
	batchAxis []int               // batch axis of each input
	outputs   []string
	outBatch  []int // batch axis of each output
}

func sampleModels(withBig bool) []*sampleModel {
	var res []*sampleModel
	add := func(file string, m *sampleModel) {
		b, err := os.ReadFile("/repo/sample_models/onnx_models/" + file)
		if err != nil {
			return
		}
		m.bytes = b
		m.name = file
		res = append(res, m)
	}
	add("mlp.onnx", &sampleModel{inputs: []string{"data_input"}, shapes: func(n int) [][]int { return [][]int{{n, 3}} }, batchAxis: []int{0}, outputs: []string{"preds"}, outBatch: []int{0}})
	add("gru.onnx", &sampleModel{inputs: []string{"data_input", "init_hidden"}, shapes: func(n int) [][]int { return [][]int{{n, 30, 3}, {1, n, 5}} }, batchAxis: []int{0, 1}, outputs: []string{"preds", "hidden_out"}, outBatch: []int{0, 1}})
	add("scaler.onnx", &sampleModel{inputs: []string{"X"}, shapes: func(n int) [][]int { return [][]int{{n, 3}} }, batchAxis: []int{0}, outputs: []string{"variable"}, outBatch: []int{0}})
	if withBig {
		add("ndm.onnx", &sampleModel{inputs: []string{"sensor_input", "setpoint_input"}, shapes: func(n int) [][]int { return [][]int{{n, 18, 4}, {n, 1}} }, batchAxis: []int{0, 0}, outputs: []string{"optimal_supply_temp"}, outBatch: []int{0}})
	}
	return res
}

// deterministic float32 data: element k of input i for variant v
func sampleData(n int, i, v int) []float32 {
	d := make([]float32, n)
	for k := range d {
		d[k] = float32((k*7+i*3+v*5)%23-11) / 8
	}
	return d
}

func (s *sampleModel) mkInputs(batch, variant int) gonnx.Tensors {
	t := gonnx.Tensors{}
	for i, name := range s.inputs {
		sh := s.shapes(batch)[i]
		t[name] = tensor.New(tensor.WithShape(sh...), tensor.WithBacking(sampleData(numel(sh), i, variant)))
	}
	return t
}
