module vharness

go 1.21

require (
	github.com/advancedclimatesystems/gonnx v0.0.0
	google.golang.org/protobuf v1.31.0
	gorgonia.org/tensor v0.9.24
)

require (
	github.com/apache/arrow/go/arrow v0.0.0-20211112161151-bc219186db40 // indirect
	github.com/chewxy/hm v1.0.0 // indirect
	github.com/chewxy/math32 v1.10.1 // indirect
	github.com/gogo/protobuf v1.3.2 // indirect
	github.com/golang/protobuf v1.5.3 // indirect
	github.com/google/flatbuffers v23.5.26+incompatible // indirect
	github.com/pkg/errors v0.9.1 // indirect
	github.com/xtgo/set v1.0.0 // indirect
	go4.org/unsafe/assume-no-moving-gc v0.0.0-20231121144256-b99613f794b6 // indirect
	golang.org/x/xerrors v0.0.0-20231012003039-104605ab7028 // indirect
	gonum.org/v1/gonum v0.14.0 // indirect
	gorgonia.org/vecf32 v0.9.0 // indirect
	gorgonia.org/vecf64 v0.9.0 // indirect
)

replace github.com/advancedclimatesystems/gonnx => /repo
