package main

import (
	"fmt"
	"math"
	"math/rand"

	"gorgonia.org/tensor"
)

// all subsets (as sorted lists) of {0..r-1}, each axis spelled positively or negatively at random
func axesSubsets(r *rand.Rand, rank int) [][]int64 {
	var out [][]int64
	for mask := 0; mask < 1<<rank; mask++ {
		var s []int64
		for a := 0; a < rank; a++ {
			if mask&(1<<a) != 0 {
				if r.Intn(2) == 0 {
					s = append(s, int64(a))
				} else {
					s = append(s, int64(a-rank))
				}
			}
		}
		out = append(out, s)
	}
	return out
}

func genC09(dir, tier string, seed int64) {
	r := rand.New(rand.NewSource(seed))
	keep := 3 // quick: one in `keep` of the enumerated reduction cases of rank >= 3
	nSoft := 260
	if tier == "thorough" {
		keep, nSoft = 1, 20000
	}
	cw := newCaseWriter(dir, "C09_ops", opHeader("CheckC09"), opFooter,
		"ArgMax: all shapes of rank 1..4 with extents 1..3 and seven shapes with an extent of 4..17 x every axis in both spellings (and out-of-range ones) x keepdims in {absent,0,1}, payloads with ties, distinct values, NaNs (float) over float32/float64/int32/int64/uint32/uint64 (one 64-bit integer payload in three: neighbouring values beyond 2^53); ReduceMax/ReduceMin: the same shapes x every subset of axes (random positive/negative spelling, absent, unsorted) x keepdims in {absent,0,1}, NaN-free payloads, the same element types and int8/uint8; Softmax/LogSoftmax: seeded random shapes of rank 1..4 (extents 1..4) x every axis in both spellings (default and out-of-range too) x float32/float64, finite values across the whole range: tiny, ordinary, +-1e3 gaps inside a slice, up to +-3e38 / +-1e308, equal values, first element of the tensor far above a later row", false, 250)
	fdts := []tensor.Dtype{tensor.Float32, tensor.Float32, tensor.Float64, tensor.Int32, tensor.Int64, tensor.Uint32, tensor.Uint64}
	rdts := append(append([]tensor.Dtype{}, fdts...), tensor.Int8, tensor.Uint8)
	k := 0
	payload := func(d tensor.Dtype, shape []int, withNaN bool) tensor.Tensor {
		n := numel(shape)
		switch d {
		case tensor.Float32:
			v := make([]float32, n)
			for i := range v {
				v[i] = float32(r.Intn(5)-2) * 1.5
				if withNaN && r.Intn(6) == 0 {
					v[i] = float32(math.NaN())
				}
				if r.Intn(12) == 0 {
					v[i] = float32(math.Inf(1 - 2*r.Intn(2)))
				}
			}
			return tensor.New(tensor.WithShape(shape...), tensor.WithBacking(v))
		case tensor.Float64:
			v := make([]float64, n)
			for i := range v {
				v[i] = float64(r.Intn(5)-2) * 1.5
				if withNaN && r.Intn(6) == 0 {
					v[i] = math.NaN()
				}
			}
			return tensor.New(tensor.WithShape(shape...), tensor.WithBacking(v))
		}
		vals := make([]int64, n)
		// one integer payload in three (64-bit types): neighbours beyond 2^53, which collapse when
		// compared as float64 (timestamps, hashes, values near the type's extremes)
		big := (d == tensor.Int64 || d == tensor.Uint64) && r.Intn(3) == 0
		base := []int64{1 << 53, 1 << 60, math.MaxInt64 - 8, 1234567890123456784}[r.Intn(4)]
		for i := range vals {
			vals[i] = int64(r.Intn(5) - 2)
			if d == tensor.Uint32 || d == tensor.Uint64 || d == tensor.Uint8 {
				vals[i] = int64(r.Intn(4))
			}
			if big {
				vals[i] = base + int64(r.Intn(5))
				if d == tensor.Int64 && r.Intn(4) == 0 {
					vals[i] = -vals[i]
				}
			}
		}
		return mkT(d, shape, vals)
	}
	c09shapes := append(shapesUpToRank(1, 4, []int{1, 2, 3}), [][]int{{5}, {9}, {17}, {2, 9}, {8, 3}, {3, 17, 2}, {5, 1, 4}}...)
	for _, s := range c09shapes {
		s := s
		rk := len(s)
		sel := func() bool { return rk <= 2 || keep == 1 || r.Intn(keep*(rk-1)) == 0 }
		// ArgMax
		for ax := -rk - 1; ax <= rk; ax++ {
			for _, kd := range []int{-1, 0, 1} {
				if !sel() {
					continue
				}
				k++
				d := fdts[k%len(fdts)]
				x := payload(d, s, k%3 == 0)
				var attrs []attr
				if !(ax == 0 && r.Intn(3) == 0) {
					attrs = append(attrs, aInt("axis", int64(ax)))
				}
				if kd >= 0 {
					attrs = append(attrs, aInt("keepdims", int64(kd)))
				}
				emitOp(cw, "ArgMax", attrs, func() []tensor.Tensor { return cloneAll([]tensor.Tensor{x}) })
			}
		}
		// ReduceMax / ReduceMin
		for _, op := range []string{"ReduceMax", "ReduceMin"} {
			for _, axes := range axesSubsets(r, rk) {
				for _, kd := range []int{-1, 0, 1} {
					if !sel() {
						continue
					}
					k++
					d := rdts[k%len(rdts)] // ReduceMax / ReduceMin accept the 8-bit integers as well
					x := payload(d, s, false)
					var attrs []attr
					ax := append([]int64{}, axes...)
					if len(ax) > 1 && r.Intn(3) == 0 {
						ax[0], ax[len(ax)-1] = ax[len(ax)-1], ax[0]
					}
					if len(ax) > 0 {
						attrs = append(attrs, aInts("axes", ax))
					}
					if kd >= 0 {
						attrs = append(attrs, aInt("keepdims", int64(kd)))
					}
					emitOp(cw, op, attrs, func() []tensor.Tensor { return cloneAll([]tensor.Tensor{x}) })
				}
			}
			if sel() {
				x := payload(tensor.Float32, s, false)
				emitOp(cw, op, []attr{aInts("axes", []int64{int64(rk)})}, func() []tensor.Tensor { return cloneAll([]tensor.Tensor{x}) })
			}
		}
	}
	// Softmax / LogSoftmax
	for c := 0; c < nSoft; c++ {
		op := []string{"Softmax", "LogSoftmax"}[c%2]
		rk := 1 + r.Intn(4)
		var s []int
		for {
			s = make([]int, rk)
			for i := range s {
				s[i] = 1 + r.Intn(4)
			}
			if numel(s) <= 24 {
				break
			}
		}
		f64 := r.Intn(3) == 0
		n := numel(s)
		vals := make([]float64, n)
		mode := r.Intn(8)
		big := 3e38
		if f64 {
			big = 1e308
		}
		for i := range vals {
			switch mode {
			case 0:
				vals[i] = r.NormFloat64()
			case 1:
				vals[i] = r.NormFloat64() * 30
			case 2:
				vals[i] = float64(r.Intn(3)-1) * 1000
			case 3:
				vals[i] = (r.Float64()*2 - 1) * big
			case 4:
				vals[i] = 7
			case 5:
				vals[i] = r.NormFloat64() * 1e-20
			case 6:
				vals[i] = -big + float64(r.Intn(3))
			default:
				vals[i] = r.NormFloat64() * 5
			}
		}
		if mode == 7 && n > 1 { // first element of the tensor far above the rest
			vals[0] = 20 + float64(r.Intn(400))
		}
		var x tensor.Tensor
		if f64 {
			x = tensor.New(tensor.WithShape(s...), tensor.WithBacking(vals))
		} else {
			d := make([]float32, n)
			for i, v := range vals {
				d[i] = float32(v)
			}
			x = tensor.New(tensor.WithShape(s...), tensor.WithBacking(d))
		}
		var attrs []attr
		ax := r.Intn(2*rk+2) - rk - 1 // -rk-1 .. rk
		if r.Intn(6) != 0 {
			attrs = append(attrs, aInt("axis", int64(ax)))
		}
		emitOp(cw, op, attrs, func() []tensor.Tensor { return cloneAll([]tensor.Tensor{x}) })
		count("softmax_mode", fmt.Sprint(mode))
	}
	cw.close()
}
