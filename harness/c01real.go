package main

import (
	"fmt"
	"math/rand"
	"strings"

	"github.com/advancedclimatesystems/gonnx"
	"github.com/advancedclimatesystems/gonnx/onnx"
	"github.com/advancedclimatesystems/gonnx/ops/opset13"
	"google.golang.org/protobuf/proto"
	"gorgonia.org/tensor"
)

// apply a fresh real operator through the operator API (the per-node oracle)
func applyFresh(op string, attrs []*onnx.AttributeProto, outputs []string, ins []tensor.Tensor) (out []tensor.Tensor, err error) {
	defer func() {
		if r := recover(); r != nil {
			err = fmt.Errorf("panic: %v", r)
		}
	}()
	o, err := opset13.GetOperator(op)
	if err != nil {
		return nil, err
	}
	if err := o.Init(&onnx.NodeProto{Attribute: attrs, Output: outputs}); err != nil {
		return nil, err
	}
	v, err := o.ValidateInputs(ins)
	if err != nil {
		return nil, err
	}
	return o.Apply(v)
}

type realNode struct {
	op      string
	attrs   []*onnx.AttributeProto
	in, out []string
}

func realModel(inputs []string, ranks map[string]int, inits map[string]tensor.Tensor, nodes []realNode, outputs []string) []byte {
	g := &onnx.GraphProto{Name: "g"}
	for _, n := range inputs {
		var dims []*onnx.TensorShapeProto_Dimension
		for i := 0; i < ranks[n]; i++ {
			dims = append(dims, &onnx.TensorShapeProto_Dimension{})
		}
		g.Input = append(g.Input, &onnx.ValueInfoProto{Name: n, Type: &onnx.TypeProto{Value: &onnx.TypeProto_TensorType{TensorType: &onnx.TypeProto_Tensor{ElemType: 1, Shape: &onnx.TensorShapeProto{Dim: dims}}}}})
	}
	for n, t := range inits {
		g.Initializer = append(g.Initializer, tensorToProto(n, t))
	}
	for _, n := range nodes {
		g.Node = append(g.Node, &onnx.NodeProto{OpType: n.op, Attribute: n.attrs, Input: n.in, Output: n.out})
	}
	for _, o := range outputs {
		g.Output = append(g.Output, &onnx.ValueInfoProto{Name: o})
	}
	b, _ := proto.Marshal(&onnx.ModelProto{IrVersion: 7, OpsetImport: opsetSpelling(13, len(nodes)+len(inputs)+len(inits)), Graph: g})
	return b
}

func genC01Real(tier string, seed int64) {
	r := rand.New(rand.NewSource(seed + 77))
	res := goOnlyResult{Stream: "C01_real_operators", Rule: "real registry, oracle = a fresh operator applied through the operator API, bit for bit: (a) LSTM/GRU/RNN single-node models whose outputs carry canonical, arbitrary, permuted-canonical names, omit trailing outputs or skip one with \"\" -- results must be bound by position (a refusal is accepted only when outputs are omitted); (b) two nodes of the same operator type with different attributes in one graph, both orders; (b') two Conv nodes whose dilated kernels have one shape, three Runs; every pair model is run twice; (d) chains of shape operators (Reshape with 0 / -1, Flatten, Squeeze, Unsqueeze, Transpose) whose intermediates are not graph outputs; (c) seeded random DAGs of 3..8 nodes over unary/binary operators with fan-out and fan-in, every intermediate declared as output", Violations: []string{}}
	fxs := fixtures()
	fail := func(format string, a ...interface{}) {
		if len(res.Violations) < 20 {
			res.Violations = append(res.Violations, fmt.Sprintf(format, a...))
		}
	}
	// (a) output naming of the multi-output operators
	for _, op := range []string{"LSTM", "GRU", "RNN"} {
		f := fxs[op][0]
		canonical := f.outputs
		want, err := applyFresh(op, f.attrs, canonical, f.inputs())
		if err != nil {
			fail("%s fixture does not run through the operator API: %v", op, err)
			continue
		}
		n := len(canonical)
		variants := [][]string{canonical}
		arb := []string{"alpha", "beta", "gamma"}[:n]
		variants = append(variants, arb)
		perm := append([]string{}, canonical...)
		perm[0], perm[1] = perm[1], perm[0]
		variants = append(variants, perm)
		variants = append(variants, arb[:n-1])
		variants = append(variants, arb[:1])
		mid := append([]string{}, arb...)
		mid[1] = ""
		variants = append(variants, mid)
		if n == 3 {
			variants = append(variants, []string{"alpha", "", ""}, []string{"", "", "gamma"})
		}
		for _, names := range variants {
			res.N++
			ins := f.inputs()
			var inNames []string
			feed := gonnx.Tensors{}
			ranks := map[string]int{}
			for i, t := range ins {
				if t == nil {
					inNames = append(inNames, "")
					continue
				}
				nm := fmt.Sprintf("in%d", i)
				inNames = append(inNames, nm)
				feed[nm] = t
				ranks[nm] = len(t.Shape())
			}
			var declIn, declOut []string
			for _, nm := range inNames {
				if nm != "" {
					declIn = append(declIn, nm)
				}
			}
			for _, nm := range names {
				if nm != "" {
					declOut = append(declOut, nm)
				}
			}
			b := realModel(declIn, ranks, nil, []realNode{{op: op, attrs: f.attrs, in: inNames, out: names}}, declOut)
			m, err := gonnx.NewModelFromBytes(b)
			if err != nil {
				fail("%s with output names %q does not load: %v", op, names, err)
				continue
			}
			out, err, pan := runRec(m, feed)
			if pan {
				fail("%s with output names %q: Run panicked: %v", op, names, err)
				continue
			}
			if err != nil {
				if len(names) == n {
					fail("%s with output names %q (all outputs listed): Run failed: %v", op, names, err)
				}
				continue // omitted outputs: a refusal is accepted
			}
			for i, nm := range names {
				if nm == "" {
					continue
				}
				if out[nm] == nil || snapT(out[nm]) != snapT(want[i]) {
					fail("%s with output names %q: output %d (%q) is not the operator's result number %d: got %.200s want %.200s", op, names, i, nm, i, snapT(out[nm]), snapT(want[i]))
					break
				}
			}
		}
	}
	// (b) two nodes of one operator type with different attributes
	type variant struct {
		op string
		a  []*onnx.AttributeProto
		b  []*onnx.AttributeProto
		in func() []tensor.Tensor
	}
	ai := func(n string, v int64) *onnx.AttributeProto {
		return &onnx.AttributeProto{Name: n, I: v, Type: onnx.AttributeProto_INT}
	}
	ais := func(n string, v ...int64) *onnx.AttributeProto {
		return &onnx.AttributeProto{Name: n, Ints: v, Type: onnx.AttributeProto_INTS}
	}
	af := func(n string, v float32) *onnx.AttributeProto {
		return &onnx.AttributeProto{Name: n, F: v, Type: onnx.AttributeProto_FLOAT}
	}
	x23 := func() []tensor.Tensor { return []tensor.Tensor{fxF32(2, 3)} }
	pairs := []variant{
		{"Flatten", []*onnx.AttributeProto{ai("axis", 0)}, []*onnx.AttributeProto{ai("axis", 2)}, x23},
		{"Transpose", []*onnx.AttributeProto{ais("perm", 1, 0, 2)}, []*onnx.AttributeProto{ais("perm", 2, 1, 0)}, func() []tensor.Tensor { return []tensor.Tensor{fxF32(2, 3, 2)} }},
		{"Softmax", []*onnx.AttributeProto{ai("axis", 0)}, []*onnx.AttributeProto{ai("axis", 1)}, x23},
		{"ReduceMax", []*onnx.AttributeProto{ais("axes", 0)}, []*onnx.AttributeProto{ais("axes", 1), ai("keepdims", 0)}, x23},
		{"ArgMax", []*onnx.AttributeProto{ai("axis", 0)}, []*onnx.AttributeProto{ai("axis", 1), ai("keepdims", 0)}, x23},
		{"Concat", []*onnx.AttributeProto{ai("axis", 0)}, []*onnx.AttributeProto{ai("axis", 1)}, func() []tensor.Tensor { return []tensor.Tensor{fxF32(2, 3), fxPos32(2, 3)} }},
		{"Gemm", []*onnx.AttributeProto{af("alpha", 2), ai("transB", 1)}, []*onnx.AttributeProto{af("alpha", 0.5), af("beta", 3), ai("transB", 1)}, func() []tensor.Tensor { return []tensor.Tensor{fxF32(2, 3), fxPos32(4, 3), fxF32(4)} }},
		{"Conv", []*onnx.AttributeProto{ais("strides", 1, 1)}, []*onnx.AttributeProto{ais("strides", 2, 1), ais("pads", 1, 0, 1, 0)}, func() []tensor.Tensor { return []tensor.Tensor{fxF32(1, 2, 4, 5), fxPos32(3, 2, 2, 2), fxF32(3)} }},
		{"Cast", []*onnx.AttributeProto{ai("to", 7)}, []*onnx.AttributeProto{ai("to", 11)}, x23},
		{"Gather", []*onnx.AttributeProto{ai("axis", 0)}, []*onnx.AttributeProto{ai("axis", 1)}, func() []tensor.Tensor { return []tensor.Tensor{fxF32(2, 3), fxI64(1, 0)} }},
		{"Scaler", []*onnx.AttributeProto{{Name: "offset", Floats: []float32{1, 2, 3}, Type: onnx.AttributeProto_FLOATS}, {Name: "scale", Floats: []float32{2, 2, 2}, Type: onnx.AttributeProto_FLOATS}},
			[]*onnx.AttributeProto{{Name: "offset", Floats: []float32{0, 0, 1}, Type: onnx.AttributeProto_FLOATS}, {Name: "scale", Floats: []float32{1, 3, 5}, Type: onnx.AttributeProto_FLOATS}}, x23},
		{"Constant", []*onnx.AttributeProto{{Name: "value_floats", Floats: []float32{1, 2}, Type: onnx.AttributeProto_FLOATS}}, []*onnx.AttributeProto{{Name: "value_ints", Ints: []int64{7, 8, 9}, Type: onnx.AttributeProto_INTS}}, func() []tensor.Tensor { return nil }},
		{"LSTM", []*onnx.AttributeProto{ai("hidden_size", 2)}, []*onnx.AttributeProto{ai("hidden_size", 2), {Name: "activations", Strings: [][]byte{[]byte("tanh"), []byte("sigmoid"), []byte("relu")}, Type: onnx.AttributeProto_STRINGS}},
			func() []tensor.Tensor { return []tensor.Tensor{fxF32(2, 2, 3), fxF32(1, 8, 3), fxF32(1, 8, 2)} }},
	}
	for _, p := range pairs {
		for order := 0; order < 2; order++ {
			res.N++
			attrs := [][]*onnx.AttributeProto{p.a, p.b}
			if order == 1 {
				attrs[0], attrs[1] = attrs[1], attrs[0]
			}
			nOut := 1
			outsOf := func(k int) []string {
				if p.op == "LSTM" {
					nOut = 3
					return []string{fmt.Sprintf("Y%d", k), fmt.Sprintf("H%d", k), fmt.Sprintf("C%d", k)}
				}
				return []string{fmt.Sprintf("y%d", k)}
			}
			ins := p.in()
			var inNames []string
			feed := gonnx.Tensors{}
			ranks := map[string]int{}
			for i, t := range ins {
				nm := fmt.Sprintf("in%d", i)
				inNames = append(inNames, nm)
				feed[nm] = t
				ranks[nm] = len(t.Shape())
			}
			nodes := []realNode{{op: p.op, attrs: attrs[0], in: inNames, out: outsOf(0)}, {op: p.op, attrs: attrs[1], in: inNames, out: outsOf(1)}}
			b := realModel(inNames, ranks, nil, nodes, append(outsOf(0), outsOf(1)...))
			m, err := gonnx.NewModelFromBytes(b)
			if err != nil {
				fail("two-%s model does not load: %v", p.op, err)
				continue
			}
			out, err, _ := runRec(m, feed)
			if err != nil {
				fail("two %s nodes with different attributes: Run failed: %v", p.op, err)
				continue
			}
			// ... and a second Run of the same Model gives the same (a node's Init may not change what another
			// node of that type computes on a later Run)
			feed2 := gonnx.Tensors{}
			for i, t := range p.in() {
				feed2[fmt.Sprintf("in%d", i)] = t
			}
			out2, err2, _ := runRec(m, feed2)
			if err2 != nil {
				fail("two %s nodes with different attributes: the second Run failed: %v", p.op, err2)
				continue
			}
			for _, nm := range append(outsOf(0), outsOf(1)...) {
				if out2[nm] == nil || snapT(out2[nm]) != snapT(out[nm]) {
					fail("two %s nodes with different attributes (order %d): output %s of the second Run of the same Model differs from the first Run: %.200s vs %.200s", p.op, order, nm, snapT(out2[nm]), snapT(out[nm]))
					break
				}
			}
			for k := 0; k < 2; k++ {
				canon := []string{"Y", "Y_h", "Y_c"}[:nOut]
				want, werr := applyFresh(p.op, attrs[k], canon, p.in())
				if werr != nil {
					fail("%s oracle failed: %v", p.op, werr)
					break
				}
				for j, nm := range outsOf(k) {
					if out[nm] == nil || snapT(out[nm]) != snapT(want[j]) {
						fail("two %s nodes with different attributes (order %d): node %d output %d differs from a fresh operator with that node's attributes: got %.200s want %.200s", p.op, order, k, j, snapT(out[nm]), snapT(want[j]))
						break
					}
				}
			}
		}
	}
	// (b') two Conv nodes whose DILATED kernels have one shape (3x3 dilated by 2 = 5x5) but different taps,
	// both orders, two Runs
	for order := 0; order < 2; order++ {
		res.N++
		x, k3, k5 := fxF32(1, 2, 7, 7), fxPos32(2, 2, 3, 3), fxF32(2, 2, 5, 5)
		nodes := []realNode{{op: "Conv", attrs: []*onnx.AttributeProto{ais("dilations", 2, 2)}, in: []string{"x", "k3"}, out: []string{"y0"}},
			{op: "Conv", attrs: []*onnx.AttributeProto{ais("dilations", 1, 1)}, in: []string{"x", "k5"}, out: []string{"y1"}}}
		if order == 1 {
			nodes[0], nodes[1] = nodes[1], nodes[0]
		}
		b := realModel([]string{"x"}, map[string]int{"x": 4}, map[string]tensor.Tensor{"k3": k3, "k5": k5}, nodes, []string{"y0", "y1"})
		m, err := gonnx.NewModelFromBytes(b)
		if err != nil {
			fail("two-Conv model does not load: %v", err)
			continue
		}
		w0, e0 := applyFresh("Conv", []*onnx.AttributeProto{ais("dilations", 2, 2)}, nil, []tensor.Tensor{x.Clone().(tensor.Tensor), k3.Clone().(tensor.Tensor)})
		w1, e1 := applyFresh("Conv", []*onnx.AttributeProto{ais("dilations", 1, 1)}, nil, []tensor.Tensor{x.Clone().(tensor.Tensor), k5.Clone().(tensor.Tensor)})
		if e0 != nil || e1 != nil {
			fail("Conv oracle failed: %v %v", e0, e1)
			continue
		}
		for run := 0; run < 3; run++ {
			out, err, _ := runRec(m, gonnx.Tensors{"x": x.Clone().(tensor.Tensor)})
			if err != nil {
				fail("two Conv nodes (3x3 dilated by 2, 5x5), Run %d failed: %v", run, err)
				break
			}
			if snapT(out["y0"]) != snapT(w0[0]) || snapT(out["y1"]) != snapT(w1[0]) {
				fail("two Conv nodes whose dilated kernels have one shape (order %d), Run %d: results differ from fresh operators: %.150s / %.150s want %.150s / %.150s", order, run, snapT(out["y0"]), snapT(out["y1"]), snapT(w0[0]), snapT(w1[0]))
				break
			}
		}
	}
	// (d) chains of shape operators whose intermediates are NOT graph outputs, the consumer's shape using
	// 0 ("copy this extent from MY input") and -1
	i64v := func(v ...int64) tensor.Tensor { return tensor.New(tensor.WithShape(len(v)), tensor.WithBacking(v)) }
	type chainNode struct {
		op    string
		attrs []*onnx.AttributeProto
		extra tensor.Tensor // second input (shape / axes) or nil
	}
	chains := [][]chainNode{
		{{"Reshape", nil, i64v(4, 6)}, {"Reshape", nil, i64v(0, -1, 2)}},
		{{"Flatten", []*onnx.AttributeProto{ai("axis", 1)}, nil}, {"Reshape", nil, i64v(-1, 0)}},
		{{"Reshape", nil, i64v(24)}, {"Reshape", nil, i64v(0)}},
		{{"Unsqueeze", nil, i64v(0)}, {"Reshape", nil, i64v(0, 0, -1)}},
		{{"Reshape", nil, i64v(1, 24)}, {"Squeeze", nil, i64v(0)}, {"Reshape", nil, i64v(0, 1)}},
		{{"Transpose", []*onnx.AttributeProto{ais("perm", 2, 0, 1)}, nil}, {"Reshape", nil, i64v(0, -1)}, {"Reshape", nil, i64v(-1, 0)}},
		{{"Flatten", []*onnx.AttributeProto{ai("axis", 2)}, nil}, {"Reshape", nil, i64v(0, 2, -1)}, {"Flatten", []*onnx.AttributeProto{ai("axis", 0)}, nil}},
	}
	for ci, ch := range chains {
		res.N++
		x := fxF32(2, 3, 4)
		cur := []tensor.Tensor{x.Clone().(tensor.Tensor)}
		inits := map[string]tensor.Tensor{}
		var nodes []realNode
		prev := "x"
		okOracle := true
		for k, cn := range ch {
			ins := []tensor.Tensor{cur[0]}
			in := []string{prev}
			if cn.extra != nil {
				nm := fmt.Sprintf("s%d", k)
				inits[nm] = cn.extra
				in = append(in, nm)
				ins = append(ins, cn.extra.Clone().(tensor.Tensor))
			}
			o, err := applyFresh(cn.op, cn.attrs, nil, ins)
			if err != nil {
				okOracle = false
				break
			}
			cur = o
			prev = fmt.Sprintf("t%d", k)
			nodes = append(nodes, realNode{op: cn.op, attrs: cn.attrs, in: in, out: []string{prev}})
		}
		if !okOracle {
			fail("shape chain %d: the oracle (operators applied one by one) failed", ci)
			continue
		}
		b := realModel([]string{"x"}, map[string]int{"x": 3}, inits, nodes, []string{prev})
		m, err := gonnx.NewModelFromBytes(b)
		if err != nil {
			fail("shape chain %d does not load: %v", ci, err)
			continue
		}
		out, err, _ := runRec(m, gonnx.Tensors{"x": x.Clone().(tensor.Tensor)})
		if err != nil || out[prev] == nil || snapT(out[prev]) != snapT(cur[0]) {
			fail("chain of shape operators %s with undeclared intermediates: Run gives %v / %.200s, the operators applied one by one give %.200s", describe(nodes), err, snapT(out[prev]), snapT(cur[0]))
		}
	}
	// (c) random DAGs over unary/binary operators
	nDag := 40
	if tier == "thorough" {
		nDag = 4000
	}
	un := []string{"Abs", "Relu", "Tanh", "Sigmoid", "Sin", "Cos", "Atan", "Sinh"}
	bin := []string{"Add", "Mul", "Sub", "Div"}
	for d := 0; d < nDag; d++ {
		res.N++
		feed := gonnx.Tensors{"x0": fxF32(2, 3), "x1": fxPos32(3)}
		vals := map[string]tensor.Tensor{"x0": fxF32(2, 3), "x1": fxPos32(3)}
		avail := []string{"x0", "x1"}
		var nodes []realNode
		var outs []string
		okOracle := true
		for k := 0; k < 3+r.Intn(6); k++ {
			name := fmt.Sprintf("t%d_%c", k, 'a'+rune(r.Intn(26)))
			var nd realNode
			if r.Intn(2) == 0 {
				nd = realNode{op: un[r.Intn(len(un))], in: []string{avail[r.Intn(len(avail))]}, out: []string{name}}
			} else {
				nd = realNode{op: bin[r.Intn(len(bin))], in: []string{avail[r.Intn(len(avail))], avail[r.Intn(len(avail))]}, out: []string{name}}
			}
			var ins []tensor.Tensor
			for _, i := range nd.in {
				ins = append(ins, vals[i].Clone().(tensor.Tensor))
			}
			o, err := applyFresh(nd.op, nil, nd.out, ins)
			if err != nil {
				okOracle = false
				break
			}
			vals[name] = o[0]
			nodes = append(nodes, nd)
			avail = append(avail, name)
			outs = append(outs, name)
		}
		if !okOracle || len(nodes) == 0 {
			continue
		}
		b := realModel([]string{"x0", "x1"}, map[string]int{"x0": 2, "x1": 1}, nil, nodes, outs)
		m, err := gonnx.NewModelFromBytes(b)
		if err != nil {
			fail("random DAG does not load: %v", err)
			continue
		}
		out, err, _ := runRec(m, feed)
		if err != nil {
			fail("random DAG %v: Run failed: %v", describe(nodes), err)
			continue
		}
		for _, o := range outs {
			if out[o] == nil || snapT(out[o]) != snapT(vals[o]) {
				fail("random DAG %v: output %s differs from the node-by-node composition: got %.200s want %.200s", describe(nodes), o, snapT(out[o]), snapT(vals[o]))
				break
			}
		}
	}
	meta.GoOnly = append(meta.GoOnly, res)
}

func describe(nodes []realNode) string {
	var ss []string
	for _, n := range nodes {
		ss = append(ss, fmt.Sprintf("%s(%s)->%s", n.op, strings.Join(n.in, ","), strings.Join(n.out, ",")))
	}
	return strings.Join(ss, "; ")
}
