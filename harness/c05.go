package main

import (
	"fmt"
	"math/rand"

	"gorgonia.org/tensor"
)

func intFloat(r *rand.Rand, f64 bool, shape ...int) tensor.Tensor {
	n := numel(shape)
	if f64 {
		d := make([]float64, n)
		for i := range d {
			d[i] = float64(r.Intn(7) - 3)
		}
		return tensor.New(tensor.WithShape(shape...), tensor.WithBacking(d))
	}
	d := make([]float32, n)
	for i := range d {
		d[i] = float32(r.Intn(7) - 3)
	}
	return tensor.New(tensor.WithShape(shape...), tensor.WithBacking(d))
}

func genC05(dir, tier string, seed int64) {
	payloadAsIntegers = true
	defer func() { payloadAsIntegers = false }()
	n := 900
	if tier == "thorough" {
		n = 40000
	}
	cw := newCaseWriter(dir, "C05_conv", opHeader("CheckC05"), opFooter,
		"seeded random, stratified: 1-D and 2-D; N,C,M in 1..3 (one case in eight with 4..9 kernels, one in twelve with 4..6 channels / 4..5 samples); spatial extents 2..7 per axis independently (non-square; 1 in one axis of six); kernel extents 1..3 per axis independently (extent 1 kept a minority: mostly refused); strides 1..3 and dilations 1..2 per axis independently; pads 0..2 per side independently; auto_pad in {absent, NOTSET, SAME_UPPER, SAME_LOWER, VALID}; kernel_shape given or inferred; group absent, 1, or (1 case in 14 each) another value / an attribute Conv does not know, inserted at a random position of the attribute list, with the weight shape of a grouped convolution in half of them; bias present/absent; float32 and float64; integer-valued data in -3..3 so that float arithmetic is exact and results are compared exactly", false, 300)
	r := rand.New(rand.NewSource(seed))
	for c := 0; c < n; c++ {
		nsp := 1 + r.Intn(2)
		if c%3 != 0 {
			nsp = 2
		}
		N, C, M := 1+r.Intn(3), 1+r.Intn(3), 1+r.Intn(3)
		if r.Intn(8) == 0 {
			M = 4 + r.Intn(6) // 4..9 kernels
		}
		if r.Intn(12) == 0 {
			C = 4 + r.Intn(3)
		}
		if r.Intn(12) == 0 {
			N = 4 + r.Intn(2)
		}
		sp, ks := make([]int, nsp), make([]int, nsp)
		str, dil := make([]int64, nsp), make([]int64, nsp)
		pads := make([]int64, 2*nsp)
		for i := 0; i < nsp; i++ {
			sp[i] = 2 + r.Intn(6)
			if r.Intn(6) == 0 {
				sp[i] = 1 // a 1 x W row feature map, a length-1 sequence
			}
			ks[i] = 1 + r.Intn(3)
			if r.Intn(4) != 0 && ks[i] == 1 {
				ks[i] = 2
			}
			str[i], dil[i] = int64(1+r.Intn(3)), int64(1+r.Intn(2))
			pads[i], pads[i+nsp] = int64(r.Intn(3)), int64(r.Intn(3))
		}
		if nsp == 2 && c%2 == 0 && sp[0] >= sp[1] { // half of the 2-D cases: wider than high
			sp[0], sp[1] = sp[1], sp[0]+1
		}
		var attrs []attr
		mode := []string{"NOTSET", "NOTSET", "SAME_UPPER", "SAME_LOWER", "VALID"}[r.Intn(5)]
		if mode != "NOTSET" || r.Intn(3) == 0 {
			attrs = append(attrs, aStr("auto_pad", mode))
		}
		if mode == "NOTSET" && r.Intn(3) != 0 {
			attrs = append(attrs, aInts("pads", pads))
		} else {
			for i := range pads {
				pads[i] = 0
			}
		}
		if r.Intn(3) != 0 {
			attrs = append(attrs, aInts("strides", str))
		} else {
			for i := range str {
				str[i] = 1
			}
		}
		if r.Intn(2) == 0 {
			attrs = append(attrs, aInts("dilations", dil))
		} else {
			for i := range dil {
				dil[i] = 1
			}
		}
		if r.Intn(4) == 0 {
			k64 := make([]int64, nsp)
			for i := range k64 {
				k64[i] = int64(ks[i])
			}
			attrs = append(attrs, aInts("kernel_shape", k64))
		}
		kC := C // channels of the kernel tensor
		insertAt := func(a attr) {
			i := r.Intn(len(attrs) + 1)
			attrs = append(attrs[:i], append([]attr{a}, attrs[i:]...)...)
		}
		switch r.Intn(14) {
		case 0, 1:
			attrs = append(attrs, aInt("group", 1))
		case 2:
			insertAt(aInt("group", 1))
		case 3: // grouped / depthwise convolution is not implemented: the node must be refused, wherever the attribute stands
			g := int64(2 + r.Intn(2))
			if r.Intn(2) == 0 {
				g = int64(C)
			}
			if g > 1 && C%int(g) == 0 && r.Intn(2) == 0 {
				kC = C / int(g) // the weight shape a grouped convolution really has
			}
			insertAt(aInt("group", g))
			count("group", "not 1")
		case 4:
			insertAt(aInt("group", 0))
			count("group", "not 1")
		case 5: // an attribute Conv does not know
			insertAt([]attr{aInt("verif_unknown", 1), aInts("output_padding", []int64{0, 0}), aStr("layout", "NCHW")}[r.Intn(3)])
			count("group", "unknown attribute")
		}
		ok := true
		for i := 0; i < nsp; i++ {
			ke := int64(ks[i]) + int64(ks[i]-1)*(dil[i]-1)
			if int64(sp[i])+pads[i]+pads[i+nsp] < ke {
				ok = false
			}
		}
		if !ok {
			c--
			continue
		}
		f64 := r.Intn(4) == 0
		xs := append([]int{N, C}, sp...)
		kshape := append([]int{M, kC}, ks...)
		x, k := intFloat(r, f64, xs...), intFloat(r, f64, kshape...)
		var b tensor.Tensor
		if r.Intn(2) == 0 {
			b = intFloat(r, f64, M)
		}
		mk := func(x, k, b tensor.Tensor) func() []tensor.Tensor {
			return func() []tensor.Tensor {
				ins := []tensor.Tensor{x.Clone().(tensor.Tensor), k.Clone().(tensor.Tensor)}
				if b != nil {
					ins = append(ins, b.Clone().(tensor.Tensor))
				}
				return ins
			}
		}
		emitOp(cw, "Conv", attrs, mk(x, k, b))
		if c%6 == 0 {
			// a twin: the same attributes and shapes, other values. One Conv instance applied to both
			// (the instance_reuse observation) must give what a fresh instance gives
			convReuseTwin = true
			x2, k2 := intFloat(r, f64, xs...), intFloat(r, f64, kshape...)
			var b2 tensor.Tensor
			if b != nil {
				b2 = intFloat(r, f64, M)
			}
			emitOp(cw, "Conv", attrs, mk(x2, k2, b2))
			convReuseTwin = false
			c++
		}
		count("auto_pad", mode)
		count("spatial_dims", fmt.Sprint(nsp))
		if nsp == 2 {
			switch {
			case sp[1] > sp[0]:
				count("aspect", "wider")
			case sp[1] < sp[0]:
				count("aspect", "higher")
			default:
				count("aspect", "square")
			}
		}
	}
	cw.close()
}
