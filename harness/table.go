package main

import (
	"bufio"
	"fmt"
	"os"
	"path/filepath"
	"reflect"
	"sort"
	"strings"

	"github.com/advancedclimatesystems/gonnx"
	"github.com/advancedclimatesystems/gonnx/ops/opset13"
	"gorgonia.org/tensor"
)

// The translator of tie no. 1: dumps, from the code as it is now, the operator table
// (name, min, max, type constraints, freshness of lookups, dynamic gate) and the opset table.

func mk(d tensor.Dtype) tensor.Tensor {
	switch d {
	case tensor.Uint8:
		return tensor.New(tensor.WithShape(1), tensor.WithBacking([]uint8{1}))
	case tensor.Uint16:
		return tensor.New(tensor.WithShape(1), tensor.WithBacking([]uint16{1}))
	case tensor.Uint32:
		return tensor.New(tensor.WithShape(1), tensor.WithBacking([]uint32{1}))
	case tensor.Uint64:
		return tensor.New(tensor.WithShape(1), tensor.WithBacking([]uint64{1}))
	case tensor.Int8:
		return tensor.New(tensor.WithShape(1), tensor.WithBacking([]int8{1}))
	case tensor.Int16:
		return tensor.New(tensor.WithShape(1), tensor.WithBacking([]int16{1}))
	case tensor.Int32:
		return tensor.New(tensor.WithShape(1), tensor.WithBacking([]int32{1}))
	case tensor.Int64:
		return tensor.New(tensor.WithShape(1), tensor.WithBacking([]int64{1}))
	case tensor.Float32:
		return tensor.New(tensor.WithShape(1), tensor.WithBacking([]float32{1}))
	case tensor.Float64:
		return tensor.New(tensor.WithShape(1), tensor.WithBacking([]float64{1}))
	case tensor.Complex64:
		return tensor.New(tensor.WithShape(1), tensor.WithBacking([]complex64{1}))
	case tensor.Complex128:
		return tensor.New(tensor.WithShape(1), tensor.WithBacking([]complex128{1}))
	case tensor.String:
		return tensor.New(tensor.WithShape(1), tensor.WithBacking([]string{"a"}))
	default:
		return tensor.New(tensor.WithShape(1), tensor.WithBacking([]bool{true}))
	}
}

type opInfo struct {
	name     string
	min, max int
	cons     [][]int
	fresh    bool
	dynamic  bool // gate depends on the inputs (Concat)
}

func opTable() []opInfo {
	names := opset13.GetOpNames()
	sort.Strings(names)
	var res []opInfo
	for _, n := range names {
		a, _ := opset13.GetOperator(n)
		b, _ := opset13.GetOperator(n)
		in := opInfo{name: n, min: a.GetMinInputs(), max: a.GetMaxInputs()}
		// pointer inequality is no freshness test for zero-size operator types (Go may return one
		// address for all of them); those have no state to share
		va := reflect.ValueOf(a)
		in.fresh = a != b || (va.Kind() == reflect.Ptr && va.Type().Elem().Size() == 0)
		for _, c := range a.GetInputTypeConstraints() {
			l := []int{}
			for _, d := range c {
				l = append(l, dtIndex(d))
			}
			in.cons = append(in.cons, l)
		}
		// behavioural detection of a gate that depends on its inputs: the maximum moves
		func() {
			defer func() { recover() }()
			c, _ := opset13.GetOperator(n)
			before := c.GetMaxInputs()
			_, _ = c.ValidateInputs([]tensor.Tensor{mk(tensor.Float32), mk(tensor.Float32), mk(tensor.Float32), mk(tensor.Float32), mk(tensor.Float32), mk(tensor.Float32), mk(tensor.Float32)})
			in.dynamic = c.GetMaxInputs() != before
		}()
		res = append(res, in)
	}
	return res
}

func writeOpTable(dir string, t []opInfo) {
	f, _ := os.Create(filepath.Join(dir, "OpTable.v"))
	w := bufio.NewWriter(f)
	fmt.Fprintln(w, "(* generated from /repo by the harness on every run; do not edit *)")
	fmt.Fprintln(w, "From Coq Require Import List String ZArith.\nFrom V Require Import DType Gate.\nImport ListNotations.\nOpen Scope string_scope.")
	fmt.Fprintln(w, "Definition optable13 : list opinfo := [")
	for i, in := range t {
		var cs []string
		for _, c := range in.cons {
			var ds []string
			for _, d := range c {
				if d < 0 {
					ds = append(ds, "DString") // a dtype outside the 14: cannot be produced by the loader
				} else {
					ds = append(ds, dtNames[d])
				}
			}
			cs = append(cs, "["+strings.Join(ds, ";")+"]")
		}
		sep := ";"
		if i == len(t)-1 {
			sep = ""
		}
		fmt.Fprintf(w, "  {| o_name := \"%s\"; o_min := %d; o_max := %d; o_cons := [%s]; o_fresh := %v; o_dyn := %v |}%s\n",
			in.name, in.min, in.max, strings.Join(cs, ";"), in.fresh, in.dynamic, sep)
	}
	fmt.Fprintln(w, "].")
	// opset table of opset.go, probed: which versions resolve
	var vs []string
	for v := int64(-2); v <= 40; v++ {
		if g, err := gonnx.ResolveOperatorGetter(v); err == nil && g != nil {
			vs = append(vs, zlit(v))
		}
	}
	fmt.Fprintf(w, "Definition supported_opsets : list Z := [%s]%%Z.\n", strings.Join(vs, ";"))
	w.Flush()
	f.Close()
}
